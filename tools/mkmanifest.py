#!/usr/bin/env python3
"""Regenerates /verif/MANIFEST.json from the table below (keeps it valid and in step with the checks that exist)."""
import json, os, subprocess

VERIF = os.path.dirname(os.path.dirname(os.path.abspath(__file__)))
props = [json.loads(l) for l in open(os.path.join(VERIF, "properties.jsonl"))]
ids = [p["id"] for p in props]

COMMON_NOTE = ("Trusted base (DESIGN.md section 9, listed mechanically in every evidence file): atomic-step granularity/SC for Relaxed atomics; the "
               "rely-guarantee and lock-invariant meta-theorems (not machine checked); the primitive models in models/ (tokio Semaphore, std Mutex/atomics, "
               "Instant, Runtime::timeout, futures as eager prophecy objects); the extractor rules R1-R10 (what extraction drops is stated there); "
               "assumed std specs; no lock poisoning; counters below 2^64; Verus+z3. ")

CLAIMS = {
    "C01": ("Verus discharges, on the function bodies extracted from /repo on every run, that every atomic step of get/return/take/retain/status preserves the "
            "ghost-counter invariant (permit conservation, size accounting) under arbitrary interference and at every unwind point; lemma: live objects <= max_size + shrink debt; "
            "every function guarantees it creates no new debt without a resize; Manager::create is only reached with the creation already counted under the limit.",
            "DESIGN.md 5/C01", "Liveness of tokio's semaphore is not part of this property. " ),
    "C02": ("Permit conservation (debt >= 0: no capacity destroyed) and exit-tokens-settled on every normal, error and unwind exit of every function of the get/return/take path, "
            "panic freedom of get (every unwrap / arithmetic), no lock held across an await or re-locked; fresh pools satisfy the invariant.",
            "DESIGN.md 5/C02", "DELEGATED to the trusted semaphore contract: a waiter is completed as soon as a permit is added or the semaphore is closed (liveness/fairness inside tokio is not proved). "),
    "C03": ("Every await inside get()/timeout_get()/try_recycle/try_create/HookVec::apply/apply_timeout gets an explicit unwind successor that runs the real destructors "
            "(extracted Drop bodies); proved per exit: tokens settled (no permit, no slot, users guard fired), object in hand detached once (count invariant I5), and in isolation the exact "
            "frame: permits, users, max_size unchanged, size reduced only by discarded objects; DropGuard::drop runs its closure and DropGuard::disarm runs nothing (unit dg), which is what the inlining of the users guard presupposes.",
            "DESIGN.md 5/C03", "Real unwinding (panic=abort, double panics) and mutex poisoning are outside the model. "),
    "C04": ("Per-object ghost history: an object returned by get() passed create + all post_create hooks, or all pre_recycle hooks, Manager::recycle and all post_recycle hooks, in registration "
            "order, all Ok (loop invariant on the real HookVec::apply loop, unbounded); any failing/timed-out/cancelled step discards the object with exactly one detach; recycle failures never surface; "
            "creation errors surface as Backend through the extracted From impl.",
            "DESIGN.md 5/C04", ""),
    "C05": ("Unmanaged pool: queue/permit/slot invariant under interference including close(); sequence-level conservation of every function (what is pushed, popped, handed back) in isolation; "
            "try_add gives the same object back with Timeout iff full and Closed iff closed; size <= max_size.",
            "DESIGN.md 5/C05", "status().waiting counting blocked getters is NOT claimed (status().waiting is always 0 in this implementation; reproduced, see DESIGN.md section 7 D7). remove/try_remove/timeout_remove, Pool::new/from_config and From<iterator> (the iterator retyped to the Vec it collects to) are under contract as well. "),
    "C06": ("close(): closes the semaphore, max_size 0, idle objects released and detached (isolation); get on a closed pool gives Closed on both acquisition paths and touches nothing; "
            "return to a closed pool discards; objects outliving the pool (Weak upgrade fails) are no-ops on the pool.",
            "DESIGN.md 5/C06", "The race of close() with a concurrent resize() (closed pool ends with max_size > 0) is a reproduced defect, expressed as the obligations `C06 resize.closed_pool_stays_empty` and `C06 close.leaves_pool_closed_and_empty` of the interference variant, which fail and are recorded as KNOWN FINDINGS (DESIGN.md 0.5); waking of waiters by Semaphore::close is tokio's contract. Limit found by the machinery's own tests (DESIGN.md 0.6, 13th wave): the other functions are proved under the rely that the environment's close() leaves a closed pool empty, which is the very guarantee those findings show to be false in a race; a further C06 violation that needs close() to race with an in-flight get() (one stored seeded change) is therefore NOT reported. "),
    "C07": ("resize(): max_size set, idle surplus released (and detached), objects in use untouched, grow adds exactly the new capacity, order kept, debt invariant preserved under interference. "
            "The exact free-permit equation P = max(0, max_size - outstanding) is a KNOWN FINDING (fails on the real code, replays in /verif/replay).",
            "DESIGN.md 5/C07", ""),
    "C08": ("Pop is front for Fifo and back for Lifo, return pushes to the back, retain and resize keep relative order (loop invariants on the real loops); Manager::create is only reached after an "
            "empty pop; builder/build/from_builder/status/timeouts/is_closed/manager contain no call into manager, hooks or predicates (they are frame-only functions under contract); on the get path (isolation variant): the idle objects are offered in queue order, the untried ones keep their order, Manager::create is asked at most once and only after every idle object was tried.",
            "DESIGN.md 5/C08", "'Nothing happens in the background' is checked syntactically by the extractor (no spawn in the unit), not proved. "),
    "C09": ("retain(): full functional contract on the real loop (each idle object visited once in order; kept = exactly the approved, removed = exactly the rejected, in order; retained count; size, capacity, "
            "checked-out objects untouched; one detach per removed); take(): inner value handed over, size-1, slot freed iff not over limit, one detach; global count invariant created = size + detached + pending.",
            "DESIGN.md 5/C09", "Object identity of detach is covered for take/retain; for discard paths the count invariant is what is proved. "),
    "C10": ("apply_timeout under contract (verbatim body); zero wait uses try_acquire only; create timeout surfaces as Timeout(Create) with tokens settled; recycle timeout = rejected object; missing runtime => "
            "NoRuntimeSpecified from build() (configured) and from get() (per call) with the pool untouched; unmanaged timeout table.",
            "DESIGN.md 5/C10", "Which of 'deadline' and 'completion' wins is inside tokio's / async-std's timeout (trusted models); the contract of deadpool_runtime::Runtime::timeout that the pool units assume is proved from them in unit rt; virtual-clock orderings are not explored. "),
    "C11": ("status(): available <= size, not both available and waiting, waiting <= callers inside get, size = idle + in hand + out, size > max_size only with shrink debt, no counter wraps "
            "(every fetch_sub / -= is an obligation); exact figures at quiescent points (lemma using the idle-covered invariant).",
            "DESIGN.md 5/C11", ""),
    "C12": ("Unmanaged pool: panic freedom of every extracted public function under interference that includes close(); after close both semaphores closed, queue empty, later get => Closed, add => (same object, Closed), "
            "returned objects dropped.", "DESIGN.md 5/C12", ""),
    "C13": ("created never assigned after construction (frame of every function taking &mut ObjectInner), recycle_count + 1 and recycled = now (monotone clock model) only on successful recycle, hooks and "
            "Manager::recycle see the pre-call metrics (ghost history records the metrics argument), retain passes the stored metrics, Object::metrics returns the stored value; Metrics::age counts from `created`, Metrics::last_used from the last recycle, else from creation.",
            "DESIGN.md 5/C13", ""),
}

CLAIMS["C18"] = ("Config::get_pg_config (real body, extracted) against a setter/getter model of tokio_postgres::Config: one labelled clause per field - scalar options override the URL value, "
            "hosts / hostaddrs / ports are the URL's followed by the singular then the plural field (loop invariants, unbounded), default socket directories only when no host is given, empty "
            "user/dbname count as unset, DbnameMissing / DbnameEmpty / InvalidUrl exactly; the four enum conversions are checked against their expected mapping; panic freedom; get_pool_config passes the pool section through.",
            "DESIGN.md 5/C18", "tokio_postgres::Config is a trusted model (URL parsing is an uninterpreted function); builder/create_pool/get_manager_config are under contract too (the manager gets the translated configuration, pool and manager sections reach the pool, timeouts without a runtime are a build error; the real PoolBuilder functions are extracted here too, only Pool::from_builder is used through the contract proved in unit mg); the environment variable USER is arbitrary. ")

CLAIMS["C17"] = ("redis Manager::recycle (real body, extracted; the builder chain of redis::Pipeline modelled with prophecy-style &mut Self contracts): the pipeline sent is exactly [UNWATCH (reply ignored), PING <n>] with "
            "n the decimal of the pre-increment ping_number, ping_number is used once, Ok iff the echo equals n, an error reply is reported as Backend error, any other echo is rejected, cancellation unwinds.",
            "DESIGN.md 5/C17", "What UNWATCH does on the server and that a rejected connection is discarded and replaced (that is C04's contract of try_recycle in unit mg) are outside this unit; Connection::take is under contract (it is Object::take of its own object; what Object::take does to the pool is proved in unit mg); freshness of n holds until the counter wraps (A8). ")
CLAIMS["C19"] = ("all three flavours (units rdc, rdk, rds; real bodies): Config::builder - both URL(s) and connection structure(s) => UrlAndConnectionSpecified, neither => the default local server, otherwise exactly the named servers in order "
            "(the iter().map().collect() of the URL list expanded to its loop, invariant), bad parameters => ConfigError::Redis, pool section passed through, defaults when omitted; create_pool - config errors as Config(..), timeouts without runtime as Build(..) and never a pool, "
            "pool section and runtime reach the pool; Manager::new / from_config of each flavour connect to what the parameters name (read_from_replicas, service name, node connection info, server type passed on); "
            "the twelve From conversions between deadpool's and the redis crate's ConnectionAddr / RedisConnectionInfo / ConnectionInfo / SentinelServerType / TlsMode / SentinelNodeConnectionInfo (type definitions extracted from the registry source) are checked field-wise against their expected mapping, "
            "with the round-trip lemmas proved; sentinel Config::default; PoolConfig / Timeouts / QueueMode constructors give the documented defaults.",
            "DESIGN.md 0.4, 5/C19", "NOT covered: the serde round trip of PoolConfig/Timeouts/QueueMode (code generated by derive macros: no function of /repo to put under contract). URL parsing is inside the redis crate (arbitrary result); ClusterClientBuilder and SentinelClient::build are trusted models; "
            "Pool::builder and PoolBuilder::{new,config,runtime,build} are extracted and proved in these units too; only Pool::from_builder is used through the contract proved in unit mg (cross-unit assumption). ")

CLAIMS["C15"] = ("the three recycle functions of the SyncWrapper-based managers (r2d2, sqlite, diesel; real bodies, the closure given to interact() run inline) and diesel's perform_recycle_check: a poisoned wrapper is rejected "
            "before any interaction; r2d2: has_broken => rejected, is_valid error => Backend error, Ok only after both checks passed; sqlite: Ok only if the fresh counter value is echoed; diesel: a broken transaction manager is rejected "
            "before anything else for every recycling method, exactly the configured check is issued, ping failure => error; a failed interaction is rejected. With C04 (unit mg) a recycle error means: discarded, detached once, replaced.",
            "DESIGN.md 5/C15", "PARTIAL by nature: that a panicking closure poisons the mutex is std's behaviour (trusted, the ghost flag `poisoned`); thread placement and cancellation of a running closure are C14 (unit sy, where SyncWrapper itself is extracted); here SyncWrapper::interact is a model; the backends' truthfulness is external. ")

CLAIMS["C16"] = ("postgres unit (real bodies): RecyclingMethod::query is the documented check per method; Manager::recycle rejects a closed connection without a query and otherwise issues exactly that check (ghost log of what is sent on the connection); "
            "StatementCache: key = (query text, parameter types) - both components - for get/insert/remove, size() = number of cached keys (cache invariant), prepare_typed: a hit returns the cached statement with NO message sent on the connection, a miss sends exactly one "
            "prepare on the passed connection and stores the result under the same key, a failure caches nothing; StatementCaches::attach adds exactly the cache, detach removes exactly the entries of that cache (Vec::retain expanded to its loop, invariant); "
            "Manager::create registers the new client's cache, Manager::detach unregisters it. With C09's detach-exactly-once this gives registry = caches of owned clients.",
            "DESIGN.md 5/C16", "StatementCaches::clear/remove are proved against a heap of live caches addressed by the identity a Weak carries (every registered live cache is cleared / loses exactly that key, no other cache is touched); a failed check on an open connection is an error (query outcome log). ClientWrapper::prepare_cached / prepare_typed_cached (this client's cache and this client's connection) and StatementCache::prepare (= prepare_typed without types) are under contract as well. NOT covered: that a statement is valid on the server, server-side failures. The text of the clean-up script is a constant of /repo and is not checked. HashMap with a lawful derived Hash/Eq, Cow as its contents and Deref forwarding of ClientWrapper are modelled (trusted). ")

CLAIMS["C14"] = ("SyncWrapper (unit sy; real bodies of new, interact, is_mutex_poisoned, Drop::drop, with the two `move ||` closures lifted mechanically to functions of their own): calls into user code (the creating closure, the closure given to interact, "
            "the destructor of the wrapped value) carry a flag saying whether the code runs inside a spawn_blocking job; their contracts require it, so a closure call or a destruction outside a job fails a named precondition; "
            "the interact job: lock, Aborted exactly when the value is gone, a panic of the closure poisons the mutex (guard dropped while unwinding) and a poisoned mutex panics again; interact: a panic is reported as InteractError::Panic exactly when the mutex ends up poisoned, "
            "poisoned from then on, the wrapper stays usable; drop: the value is taken out under the lock (poisoned or not) inside a background job, so it is destroyed once and never seen by a later closure; no lock().unwrap() outside a job. "
            "Unit rt (runtime/src/lib.rs, real bodies): Runtime::spawn_blocking / spawn_blocking_background hand the closure to tokio's / async-std's blocking pool and never call it themselves, a panic of the closure is reported as SpawnBlockingError::Panic, the background variant never fails; Runtime::timeout is the contract the pool units assume.",
            "DESIGN.md 0.7", "PARTIAL by nature: OS threads do not exist in the verifier - 'runs on a thread where blocking is allowed' is the contract of tokio::task::spawn_blocking / async_std::task::spawn_blocking (trusted models) and the proof is that every use of the value sits inside a job that reaches them; "
            "jobs are evaluated eagerly (one schedule: the job runs when it is spawned), so 'after any closure still using the value has finished' rests on std's Mutex (trusted), not on an interleaving argument; poisoning is std's behaviour (model PMutex). ")

NOT_APPLICABLE = {
}
PENDING = {
}

def main():
    hooks_commits = subprocess.run(["git", "-C", "/repo", "log", "--format=%H %s"], capture_output=True, text=True).stdout.splitlines()
    hook_shas = [l.split()[0] for l in hooks_commits if "verif_hooks" in l]
    checks = []
    for pid in ids:
        if pid in CLAIMS and os.path.exists(os.path.join(VERIF, "contracts")):
            text, ref, extra = CLAIMS[pid]
            checks.append({
                "property_id": pid,
                "quick_cmd": "./check %s" % pid,
                "thorough_cmd": "./check %s --tier thorough" % pid,
                "evidence_file": "evidence/%s.json" % pid,
                "replay_cmd_template": "./check --replay {path}",
                "engine": "verus",
                "level_claimed": {"category": "proof", "text": text, "design_ref": ref},
                "level_note": extra + COMMON_NOTE,
                "technique": "contract-based deductive verification: Verus on function bodies mechanically extracted from /repo, overlay contracts, rely-guarantee interference encoding",
            })
    na = []
    for pid in ids:
        if pid in CLAIMS:
            continue
        reason = NOT_APPLICABLE.get(pid) or PENDING.get(pid) or "not claimed"
        na.append({"property_id": pid, "reason": reason})
    m = {
        "version": 1,
        "setup_cmd": "cd /verif && (cd tools/vx && CARGO_NET_OFFLINE=true cargo build --release --offline) && (cd replay && CARGO_NET_OFFLINE=true cargo build --offline)",
        "hooks": {
            "guard": "cargo feature `verif_hooks` of crate deadpool (off by default)",
            "enable": "the proof pipeline reads /repo sources only and needs no hook (statements under the guard are skipped by the extractor); the replay harness /verif/replay builds /repo with --features verif_hooks",
            "baseline_off_cmd": "cd /repo && cargo test --workspace --no-fail-fast --offline",
            "source_commits": hook_shas,
            "add_only": True,
        },
        "engines": [
            {"name": "vx", "path": "tools/vx", "serves_properties": sorted(CLAIMS), "kind_free_text": "syn-based mechanical extractor: /repo function bodies + overlay contracts -> one Verus file per (unit, variant)"},
            {"name": "verus", "path": "/opt/veriftools/verus", "serves_properties": sorted(CLAIMS), "kind_free_text": "deductive verifier (z3) deciding every obligation"},
            {"name": "replay", "path": "replay", "serves_properties": ["C01", "C02", "C04", "C05", "C06", "C07", "C08", "C09", "C10", "C11", "C12", "C13"], "kind_free_text": "concrete histories of known findings / fixed defects, a random-history witness search on the real pools and differential tests of the primitive models (auxiliary, never deciding)"},
        ],
        "checks": checks,
        "notes": "See DESIGN.md (section 0 = as built). known_findings.json lists the recorded defects (C05, C06 x2, C07) and the five fix: commits made in /repo. "
                 "Exit codes of every check: 0 = every obligation of the property discharged on the bodies extracted from the current /repo tree (KNOWN-FINDING lines do not alarm); "
                 "1 = VIOLATION: a named obligation that the contracts of the unchanged tree discharge fails; 2 = undecided, never an alarm: lost anchor (a function, struct, field or parameter a contract is stated over is gone), "
                 "a construct outside the extraction rules, a call no model specifies (vocabulary guard), a failure at or after a new / rewritten loop that has no loop contract of its own, a composition of contracted functions re-implemented on the primitives, work moved across a call boundary, solver resource limit, vacuity guard. "
                 "tools/regress.py replays 112 seeded changes and 145 behaviour-preserving refactorings against these rules (DESIGN.md 0.6).",
        "not_applicable": na,
    }
    json.dump(m, open(os.path.join(VERIF, "MANIFEST.json"), "w"), indent=1)
    print("MANIFEST.json: %d checks, %d not claimed" % (len(checks), len(na)))

if __name__ == "__main__":
    main()
