#!/usr/bin/env python3
"""mutate.py <unit> <crate> <file> [<file>...] [--jobs N] [--limit K] [--features F]

Mutation campaign against the machinery itself (not a registered check). For every first-order mutant of the given source
files (relational / arithmetic / boolean operator flips, statement deletion) it asks, in a scratch worktree under /tmp:
  1. does the crate still compile?                       no  -> "uncompilable"
  2. does the crate's own test-suite still pass?         no  -> "killed-by-tests"   (not interesting: tests see it)
  3. does the unit still verify (vx --repo <worktree>)?  a failing obligation that does not fail on the unchanged tree -> "caught"
                                                         extractor / front-end rejection -> "tool-limit"
                                                         everything discharged -> "passed" (equivalent mutant, or a miss: triage by hand)
Results: /verif/mutation/<unit>.jsonl (one line per mutant) and a summary on stdout. /repo is never touched."""
import sys, os, re, json, subprocess, shutil, time, concurrent.futures, threading, importlib.machinery, importlib.util

V = os.path.dirname(os.path.dirname(os.path.abspath(__file__)))
loader = importlib.machinery.SourceFileLoader("check", os.path.join(V, "check"))
spec = importlib.util.spec_from_loader("check", loader); ck = importlib.util.module_from_spec(spec); loader.exec_module(ck)

def sh(*a, **k):
    return subprocess.run(a, capture_output=True, text=True, **k)

OPS = [
    (r"<=", "<"), (r">=", ">"), (r"(?<![<>=!-])<(?![<=])", "<="), (r"(?<![<>=!-])>(?![>=])", ">="),
    (r"==", "!="), (r"!=", "=="), (r"&&", "||"), (r"\|\|", "&&"),
    (r"\+= 1\b", "+= 2"), (r"-= 1\b", "-= 2"), (r"\+= 1\b", "-= 1"), (r"\+ 1\b", "+ 2"), (r"- 1\b", "- 0"),
    (r"\btrue\b", "false"), (r"\bfalse\b", "true"), (r"== 0\b", "== 1"), (r"\bis_some\(\)", "is_none()"), (r"\bis_none\(\)", "is_some()"),
    (r"\bis_err\(\)", "is_ok()"), (r"\bis_ok\(\)", "is_err()"), (r"pop_front", "pop_back"), (r"pop_back", "pop_front"),
    (r"push_back", "push_front"), (r"fetch_add", "fetch_sub"), (r"fetch_sub", "fetch_add"),
]

def mutants_of(path, text):
    lines = text.split("\n")
    out = []
    depth_fn = False
    in_test = False
    in_test_fn = False
    for i, l in enumerate(lines):
        t = l.strip()
        if t.startswith("#[cfg(test)]") or t.startswith("mod tests"):
            in_test = True
        if t == "#[test]" or t.startswith("#[tokio::test"):
            in_test_fn = True
        elif in_test_fn and l.startswith("}"):
            in_test_fn = False
            continue
        if in_test or in_test_fn:
            continue
        if not l.startswith("        ") or t.startswith("//") or t.startswith("#[") or "verif::" in l or "verif_hooks" in l or t.startswith("///"):
            continue
        if i > 0 and "verif_hooks" in lines[i - 1]:
            continue
        code = l.split("//")[0]
        if "write!(" in code or "f.debug_" in code or ".field(" in code:
            continue  # Display / Debug text is not part of any property
        # generics / types are not operators
        if re.search(r"\b(fn|impl|where|struct|enum|type|use)\b", code) or "->" in code and "=>" not in code and "fn" in code:
            continue
        for pat, rep in OPS:
            for m in re.finditer(pat, code):
                # skip `<`/`>` that look like generics (followed/preceded by an identifier without spaces)
                if pat.startswith("(?<![<>=!-])") and not (code[m.start() - 1:m.start()] == " " and code[m.end():m.end() + 1] == " "):
                    continue
                new = code[:m.start()] + rep + code[m.end():] + l[len(code):]
                out.append({"file": path, "line": i + 1, "op": "%s -> %s" % (pat, rep), "old": l.strip(), "new": new.strip(), "text": "\n".join(lines[:i] + [new] + lines[i + 1:])})
        # swap the results of two adjacent single-line match arms / the values of two adjacent struct-literal fields
        if i + 1 < len(lines):
            m1 = re.match(r"^(\s*)(.+?) => (.+),\s*$", code)
            m2 = re.match(r"^(\s*)(.+?) => (.+),\s*$", lines[i + 1].split("//")[0])
            if m1 and m2 and m1.group(3) != m2.group(3) and "{" not in m1.group(3) and "{" not in m2.group(3):
                a = "%s%s => %s," % (m1.group(1), m1.group(2), m2.group(3)); b = "%s%s => %s," % (m2.group(1), m2.group(2), m1.group(3))
                out.append({"file": path, "line": i + 1, "op": "swap arm results", "old": l.strip() + " / " + lines[i + 1].strip(), "new": a.strip() + " / " + b.strip(), "text": "\n".join(lines[:i] + [a, b] + lines[i + 2:])})
            f1 = re.match(r"^(\s*)(\w+): (.+),\s*$", code)
            f2 = re.match(r"^(\s*)(\w+): (.+),\s*$", lines[i + 1].split("//")[0])
            if f1 and f2 and f1.group(3) != f2.group(3) and f1.group(1) == f2.group(1):
                a = "%s%s: %s," % (f1.group(1), f1.group(2), f2.group(3)); b = "%s%s: %s," % (f2.group(1), f2.group(2), f1.group(3))
                out.append({"file": path, "line": i + 1, "op": "swap field values", "old": l.strip() + " / " + lines[i + 1].strip(), "new": a.strip() + " / " + b.strip(), "text": "\n".join(lines[:i] + [a, b] + lines[i + 2:])})
        # `Some(x)` in value position -> `None`
        for m in re.finditer(r"(?<![\w(] )\bSome\(([\w\.\(\)&]+)\)(?!\s*(=>|=[^=]))", code):
            if not re.match(r"^\s*(if let|while let|let Some|Some\()", code.strip()) and "=>" not in code[m.end():m.end() + 4] and not code.strip().startswith("Some("):
                new = code[:m.start()] + "None" + code[m.end():]
                out.append({"file": path, "line": i + 1, "op": "Some(..) -> None", "old": l.strip(), "new": new.strip(), "text": "\n".join(lines[:i] + [new] + lines[i + 1:])})
        # statement deletion: a call statement on one line
        if re.match(r"^\s*(let _ = )?[\w\.\(\)&: ]*\w+\([^;]*\);\s*$", code) and not t.startswith("let ") or t.startswith("let _ ="):
            if t.endswith(";") and not t.startswith("return") and "=" not in t.replace("let _ =", "").replace("==", "").replace("=>", "").split("(")[0]:
                out.append({"file": path, "line": i + 1, "op": "delete statement", "old": t, "new": "", "text": "\n".join(lines[:i] + [l[:len(l) - len(l.lstrip())] + "();"] + lines[i + 1:])})
    return out

def verify(unit, repo, gen, base_fail=None):
    """run vx + verus for every variant of the unit against `repo`; returns (status, failing ids)"""
    os.makedirs(gen, exist_ok=True)
    units = ck.scan_units()
    u = units[unit]; u["name"] = unit
    failing = set()
    for v in u["variants"]:
        out = os.path.join(gen, "%s_%s.rs" % (unit, v))
        r = sh(ck.VX, "--repo", repo, "--verif", V, "--unit", u["path"], "--variant", v, "--out", out)
        if r.returncode != 0:
            return "tool-limit", ["vx: " + (r.stderr.strip().splitlines() or ["?"])[-1][:200]]
        r = sh(ck.VERUS, out, "--output-json", "--time", "--multiple-errors", "50", "--", "--error-format=json", cwd=gen)
        gf = ck.GenFile(out)
        diags = [json.loads(l) for l in r.stderr.splitlines() if l.strip().startswith("{")]
        for d in diags:
            k = ck.classify(d)
            if k == "note":
                continue
            if k in ("compile", "frontend"):
                return "tool-limit", ["verus front end: " + d.get("message", "")[:200]]
            if k == "rlimit":
                failing.add("%s/%s: rlimit" % (unit, v)); continue
            ob = ck.obligation_of(d, gf)
            failing.add("%s/%s: %s" % (unit, v, ob["id"]))
    if base_fail is not None:
        failing = failing - base_fail
    return ("caught" if failing else "passed"), sorted(failing)

def main():
    args = sys.argv[1:]
    jobs, limit, feats, notests, tag, only = 6, None, "", False, "", None
    pos = []
    i = 0
    while i < len(args):
        if args[i] == "--jobs": jobs = int(args[i + 1]); i += 2
        elif args[i] == "--limit": limit = int(args[i + 1]); i += 2
        elif args[i] == "--features": feats = args[i + 1]; i += 2
        elif args[i] == "--only-ops": only = args[i + 1].split(";"); i += 2
        elif args[i] == "--no-tests": notests = True; i += 1   # the crate's tests need a server: compile only
        elif args[i] == "--tag": tag = args[i + 1]; i += 2      # worktree name suffix (to run two campaigns side by side)
        else: pos.append(args[i]); i += 1
    unit, crate, files = pos[0], pos[1], pos[2:]
    ck.ensure_vx()
    outdir = os.path.join(V, "mutation"); os.makedirs(outdir, exist_ok=True)
    muts = []
    for f in files:
        muts += mutants_of(f, open(os.path.join("/repo", f)).read())
    # dedupe identical mutated lines
    seen, uniq = set(), []
    for m in muts:
        key = (m["file"], m["line"], m["new"])
        if key not in seen and m["new"] != m["old"] and (only is None or m["op"] in only):
            seen.add(key); uniq.append(m)
    muts = uniq[:limit] if limit else uniq
    print("%d mutants" % len(muts), flush=True)
    base_status, base_fail = verify(unit, "/repo", "/tmp/mut_base_gen" + tag)
    base_fail = set(base_fail)
    print("baseline:", base_status, sorted(base_fail), flush=True)
    # worktrees
    wts = []
    for k in range(jobs):
        wt = "/tmp/mut_wt%s_%d" % (tag, k)
        if not os.path.exists(wt):
            r = sh("git", "-C", "/repo", "worktree", "add", "-q", "--detach", wt, "HEAD")
            if r.returncode: sys.exit("worktree: " + r.stderr)
        wts.append(wt)
    free = list(wts); lock = threading.Lock()
    feat_args = ["--features", feats] if feats else []
    res_path = os.path.join(outdir, unit + ".jsonl")
    resf = open(res_path, "a")
    def work(m):
        with lock:
            wt = free.pop()
        try:
            env = dict(os.environ, CARGO_TARGET_DIR=wt + "/target", CARGO_NET_OFFLINE="true")
            p = os.path.join(wt, m["file"])
            orig = open(p).read()
            open(p, "w").write(m["text"])
            try:
                r = subprocess.run(["cargo", "build", "-p", crate, "--offline"] + feat_args, capture_output=True, text=True, cwd=wt, env=env)
                if r.returncode != 0:
                    st, det = "uncompilable", []
                else:
                    r = None if notests else subprocess.run(["cargo", "test", "-p", crate, "--offline", "--lib", "--tests"] + feat_args, capture_output=True, text=True, cwd=wt, env=env, timeout=600)
                    if r is not None and r.returncode != 0:
                        st, det = "killed-by-tests", []
                    else:
                        st, det = verify(unit, wt, wt + "/mutgen", base_fail)
            except subprocess.TimeoutExpired:
                st, det = "killed-by-tests", ["timeout"]
            finally:
                open(p, "w").write(orig)
            rec = {k: m[k] for k in ("file", "line", "op", "old", "new")}
            rec.update({"status": st, "detail": det[:6]})
            with lock:
                resf.write(json.dumps(rec) + "\n"); resf.flush()
                print("%-16s %s:%d  %s   =>   %s   %s" % (st, m["file"], m["line"], m["old"][:60], m["new"][:60], "; ".join(det)[:160]), flush=True)
            return st
        finally:
            with lock:
                free.append(wt)
    t0 = time.time()
    with concurrent.futures.ThreadPoolExecutor(max_workers=jobs) as ex:
        sts = list(ex.map(work, muts))
    from collections import Counter
    print("summary", dict(Counter(sts)), "in %.0fs" % (time.time() - t0))
    for wt in wts:
        sh("git", "-C", "/repo", "worktree", "remove", "--force", wt)
    sh("git", "-C", "/repo", "worktree", "prune")

if __name__ == "__main__":
    main()
