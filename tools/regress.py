#!/usr/bin/env python3
"""Regression of the machinery itself (not a registered check): every stored seeded change must be reported as a violation of
its property (exit 1) unless its meta.json says `expect: 2`; every stored benign refactoring must pass (exit 0) unless a
`.expect` file says 2 (undecided; never 1).

usage: regress.py [-j N] [filter ...]
  -j 1 (default): applies each patch to /repo with `git apply` and undoes it with `git checkout -- .`; refuses a dirty /repo.
  -j N: N scratch worktrees of /repo under /tmp (removed at the end), `check` is pointed at them with VERIF_REPO; /repo itself
        is not touched."""
import json, os, subprocess, sys, threading, queue
V = os.path.dirname(os.path.dirname(os.path.abspath(__file__)))
def sh(*a, **k): return subprocess.run(a, capture_output=True, text=True, **k)
args = sys.argv[1:]
jobs = 1
if args[:1] == ["-j"]:
    jobs = int(args[1]); args = args[2:]
only = args
if sh("git", "-C", "/repo", "status", "--porcelain").stdout.strip():
    sys.exit("regress: /repo is dirty")

def run(repo, patch, pid):
    r = sh("git", "-C", repo, "apply", patch)
    if r.returncode: return None, "patch does not apply"
    env = dict(os.environ, VERIF_SCRATCH="1")
    if repo != "/repo": env["VERIF_REPO"] = repo
    try:
        c = sh(os.path.join(V, "check"), pid, cwd=V, env=env)
    finally:
        sh("git", "-C", repo, "checkout", "--", ".")
        sh("git", "-C", repo, "clean", "-fdq")
    viol = [l for l in c.stdout.splitlines() if l.startswith("VIOLATION property=%s " % pid)]
    return c.returncode, "%d VIOLATION lines" % len(viol) + ("; " + [l for l in c.stdout.splitlines() if "TOOL-LIMIT" in l][0][:150] if c.returncode == 2 else "")

tasks = []
for d in sorted(os.listdir(os.path.join(V, "seeded"))):
    if only and not any(o in d for o in only): continue
    meta = json.load(open(os.path.join(V, "seeded", d, "meta.json")))
    tasks.append(("seed", d, os.path.join(V, "seeded", d, "patch.diff"), meta["property"], meta.get("expect", 1)))
for f in sorted(os.listdir(os.path.join(V, "benign"))):
    if not f.endswith(".diff") or (only and not any(o in f for o in only)): continue
    pp = os.path.join(V, "benign", f[:-5] + ".props")
    pids = open(pp).read().split() if os.path.exists(pp) else ["C02"]
    ep = os.path.join(V, "benign", f[:-5] + ".expect")
    want = int(open(ep).read()) if os.path.exists(ep) else 0   # 2 = known to be undecided (exit 2); never 1
    for pid in pids:
        tasks.append(("benign", f, os.path.join(V, "benign", f), pid, want))

bad = 0
lock = threading.Lock()
def report(kind, name, pid, exp, rc, note):
    global bad
    ok = rc == exp
    with lock:
        bad += not ok
        print("%s %-6s %-50s %s expect %s got %s  %s" % ("ok  " if ok else "FAIL", kind, name, pid, exp, rc, note), flush=True)

if jobs <= 1:
    for kind, name, patch, pid, exp in tasks:
        rc, note = run("/repo", patch, pid)
        report(kind, name, pid, exp, rc, note)
else:
    q = queue.Queue()
    for t in tasks: q.put(t)
    wts = []
    for k in range(jobs):
        wt = "/tmp/regress_wt_%d_%d" % (os.getpid(), k)
        r = sh("git", "-C", "/repo", "worktree", "add", "-q", "--detach", wt, "HEAD")
        if r.returncode: sys.exit("regress: cannot create worktree: " + r.stderr)
        wts.append(wt)
    def worker(wt):
        while True:
            try: kind, name, patch, pid, exp = q.get_nowait()
            except queue.Empty: return
            rc, note = run(wt, patch, pid)
            report(kind, name, pid, exp, rc, note)
    try:
        ths = [threading.Thread(target=worker, args=(wt,)) for wt in wts]
        for t in ths: t.start()
        for t in ths: t.join()
    finally:
        for wt in wts:
            sh("git", "-C", "/repo", "worktree", "remove", "--force", wt)
sys.exit(1 if bad else 0)
