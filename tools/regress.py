#!/usr/bin/env python3
"""Regression of the machinery itself (not a registered check): every stored seeded change must be reported as a violation of
its property (exit 1) unless its meta.json says `expect: 2`; every stored benign refactoring must pass (exit 0).
Applies each patch to /repo with `git apply` and undoes it with `git checkout -- .`; refuses to run on a dirty /repo."""
import json, os, subprocess, sys
V = os.path.dirname(os.path.dirname(os.path.abspath(__file__)))
def sh(*a, **k): return subprocess.run(a, capture_output=True, text=True, **k)
if sh("git", "-C", "/repo", "status", "--porcelain").stdout.strip():
    sys.exit("regress: /repo is dirty")
only = sys.argv[1:]
rows, bad = [], 0
def run(patch, pid):
    r = sh("git", "-C", "/repo", "apply", patch)
    if r.returncode: return None, "patch does not apply"
    try:
        c = sh(os.path.join(V, "check"), pid, cwd=V, env=dict(os.environ, VERIF_SCRATCH="1"))
    finally:
        sh("git", "-C", "/repo", "checkout", "--", ".")
    viol = [l for l in c.stdout.splitlines() if l.startswith("VIOLATION property=%s " % pid)]
    return c.returncode, "%d VIOLATION lines" % len(viol) + ("; " + [l for l in c.stdout.splitlines() if "TOOL-LIMIT" in l][0][:150] if c.returncode == 2 else "")
for d in sorted(os.listdir(os.path.join(V, "seeded"))):
    if only and not any(o in d for o in only): continue
    meta = json.load(open(os.path.join(V, "seeded", d, "meta.json")))
    exp = meta.get("expect", 1)
    rc, note = run(os.path.join(V, "seeded", d, "patch.diff"), meta["property"])
    ok = rc == exp
    bad += not ok
    print("%s seed   %-50s %s expect %s got %s  %s" % ("ok  " if ok else "FAIL", d, meta["property"], exp, rc, note), flush=True)
for f in sorted(os.listdir(os.path.join(V, "benign"))):
    if not f.endswith(".diff") or (only and not any(o in f for o in only)): continue
    pids = open(os.path.join(V, "benign", f[:-5] + ".props")).read().split() if os.path.exists(os.path.join(V, "benign", f[:-5] + ".props")) else ["C02"]
    ep = os.path.join(V, "benign", f[:-5] + ".expect")
    want = int(open(ep).read()) if os.path.exists(ep) else 0   # 2 = known to be undecided (exit 2); never 1
    for pid in pids:
        rc, note = run(os.path.join(V, "benign", f), pid)
        ok = rc == want
        bad += not ok
        print("%s benign %-50s %s expect %s got %s  %s" % ("ok  " if ok else "FAIL", f, pid, want, rc, note), flush=True)
sys.exit(1 if bad else 0)
