#!/usr/bin/env python3
"""remutate.py [-j N] <unit>...: re-run the mutants that mutation/<unit>.jsonl records as `caught` (by the raw Verus result)
through the real `check` (with all its "undecided" rules) in scratch worktrees; prints detected / undecided / passed per mutant.
A tool of the machinery's own test harness, not a registered check; /repo is not touched."""
import json, os, re, subprocess, sys, threading, queue
V = os.path.dirname(os.path.dirname(os.path.abspath(__file__)))
def sh(*a, **k): return subprocess.run(a, capture_output=True, text=True, **k)
args = sys.argv[1:]; jobs = 4
if args[:1] == ["-j"]: jobs = int(args[1]); args = args[2:]
import importlib.machinery, importlib.util
loader = importlib.machinery.SourceFileLoader("check", os.path.join(V, "check")); spec = importlib.util.spec_from_loader("check", loader); ck = importlib.util.module_from_spec(spec); loader.exec_module(ck)
units = ck.scan_units()
tasks = []
for u in args:
    for l in open(os.path.join(V, "mutation", u + ".jsonl")):
        d = json.loads(l)
        if d["status"] == "caught":
            tasks.append((u, d))
q = queue.Queue()
for t in tasks: q.put(t)
lock = threading.Lock(); summary = {}
def worker(k):
    wt = "/tmp/remut_wt_%d_%d" % (os.getpid(), k)
    sh("git", "-C", "/repo", "worktree", "add", "-q", "--detach", wt, "HEAD")
    try:
        while True:
            try: u, d = q.get_nowait()
            except queue.Empty: return
            p = os.path.join(wt, d["file"]); lines = open(p).read().split("\n")
            i = d["line"] - 1
            if d["old"] not in lines[i]:
                res = "stale"
            else:
                lines[i] = lines[i].replace(d["old"], d["new"], 1) if d["new"] else lines[i].replace(d["old"], "", 1)
                open(p, "w").write("\n".join(lines))
                # properties named by the labels that failed in the campaign first, then the unit's others
                first = []
                for x in d.get("detail", []):
                    first += re.findall(r"\bC\d\d\b", x)
                props = list(dict.fromkeys(first + sorted(units[u]["props"])))
                best = 0; res = "passed"
                for pid in props:
                    c = sh(os.path.join(V, "check"), pid, cwd=V, env=dict(os.environ, VERIF_REPO=wt, VERIF_SCRATCH="1"))
                    if c.returncode == 1: res = "detected (%s)" % pid; break
                    if c.returncode == 2: best = 2; res = "undecided: " + ([l for l in c.stdout.splitlines() if "TOOL-LIMIT" in l] or ["?"])[0][:160]
                sh("git", "-C", wt, "checkout", "--", ".")
            with lock:
                summary[res.split(":")[0].split(" (")[0]] = summary.get(res.split(":")[0].split(" (")[0], 0) + 1
                print("%-4s %s:%d  %-18s %s" % (u, d["file"], d["line"], d["op"], res), flush=True)
    finally:
        sh("git", "-C", "/repo", "worktree", "remove", "--force", wt)
ths = [threading.Thread(target=worker, args=(k,)) for k in range(jobs)]
for t in ths: t.start()
for t in ths: t.join()
print("SUMMARY", summary)
