#!/usr/bin/env python3
"""mkvocab.py: record, per unit, every function / method name that the generated Verus file of the UNCHANGED tree calls or defines
(models and overlay helpers included). `check` uses it as the vocabulary guard: a failing proof in a function that calls a
name outside this vocabulary is reported as undecided (exit 2), never as a violation. Re-run after changing models or overlays."""
import os, re, sys, subprocess, importlib.machinery, importlib.util
V = os.path.dirname(os.path.dirname(os.path.abspath(__file__)))
loader = importlib.machinery.SourceFileLoader("check", os.path.join(V, "check"))
spec = importlib.util.spec_from_loader("check", loader); ck = importlib.util.module_from_spec(spec); loader.exec_module(ck)
if subprocess.run(["git", "-C", "/repo", "status", "--porcelain"], capture_output=True, text=True).stdout.strip():
    sys.exit("mkvocab: /repo is dirty")
ck.ensure_vx()
os.makedirs(os.path.join(V, "vocab"), exist_ok=True)
for name, u in ck.scan_units().items():
    u["name"] = name
    names = set()
    ops = {}
    for v in u["variants"]:
        out = "/tmp/vocab_%s_%s.rs" % (name, v)
        r = subprocess.run([ck.VX, "--repo", "/repo", "--verif", V, "--unit", u["path"], "--variant", v, "--out", out], capture_output=True, text=True)
        if r.returncode:
            sys.exit("vx failed for %s/%s: %s" % (name, v, r.stderr[-300:]))
        text = "\n".join(l.split("//")[0] for l in open(out).read().splitlines())
        names |= set(ck.CALL_RE.findall(text))
        names |= set(re.findall(r"\bfn\s+(\w+)", text))
        import json
        m = json.load(open(out + ".map.json"))
        ops[v] = {fid: sorted(set(re.sub(r"x\d+$", "", k) for k in info.get("keys", []))) for fid, info in m["fns"].items()}
        for f in (out, out + ".map.json"):
            os.remove(f)
    open(os.path.join(V, "vocab", name + ".txt"), "w").write("\n".join(sorted(names)) + "\n")
    json.dump(ops, open(os.path.join(V, "vocab", name + ".ops.json"), "w"), indent=0, sort_keys=True)
    print(name, len(names))
