#!/bin/bash
# try_seed.sh <patch.diff> <property>... : apply a seeded change to /repo, run the checks, always revert
set -u
patch="$1"; shift
cd /repo || exit 2
if ! git diff --quiet; then echo "/repo is dirty"; exit 2; fi
git apply "$patch" || { echo "patch does not apply"; exit 2; }
for p in "$@"; do
  (cd /verif && VERIF_SCRATCH=1 ./check "$p" 2>&1 | grep -E "^check|VIOLATION|KNOWN-FINDING|TOOL-LIMIT|failing obligation" | cut -c1-260)
done
git -C /repo checkout -- .
git -C /repo status --short | head -3
