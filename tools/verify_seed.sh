#!/bin/bash
# verify_seed.sh <worktree> [crate] : confirm a sub-agent's seeded change in its scratch worktree
wt="$1"; crate="${2:-deadpool}"
cd "$wt" || exit 2
export CARGO_TARGET_DIR="$wt/target" CARGO_NET_OFFLINE=true
git checkout -q -- . 2>/dev/null
cp SEEDED/seeded_demo.rs tests/seeded_demo.rs
echo "== without change: demo"; cargo test -p $crate --offline --test seeded_demo 2>&1 | grep -E "^test result|error" | head -3
git apply SEEDED/patch.diff || { echo "PATCH DOES NOT APPLY"; exit 1; }
echo "== with change: demo"; cargo test -p $crate --offline --test seeded_demo 2>&1 | grep -E "^test result|error" | head -3
rm -f tests/seeded_demo.rs
echo "== with change: existing tests"; cargo test -p $crate --offline 2>&1 | grep -E "^test result|FAILED|error\[" | sort | uniq -c | head -20
git checkout -q -- .
git status --short | head -5
