#!/bin/bash
# verify_seed.sh <worktree> [crate] [crate-dir] [extra cargo args, e.g. "--features rt_tokio_1"]
# confirm a sub-agent's seeded change in its scratch worktree: demo passes without, fails with; existing tests with the change
wt="$1"; crate="${2:-deadpool}"; dir="${3:-.}"; extra="$4"
cd "$wt" || exit 2
export CARGO_TARGET_DIR="$wt/target" CARGO_NET_OFFLINE=true
git checkout -q -- . 2>/dev/null
mkdir -p $dir/tests
cp SEEDED/seeded_demo.rs $dir/tests/seeded_demo.rs
echo "== without change: demo"; cargo test -p $crate --offline $extra --test seeded_demo 2>&1 | grep -E "^test result|^error" | head -3
git apply SEEDED/patch.diff || { echo "PATCH DOES NOT APPLY"; exit 1; }
echo "== with change: demo"; cargo test -p $crate --offline $extra --test seeded_demo 2>&1 | grep -E "^test result|^error" | head -3
rm -f $dir/tests/seeded_demo.rs; rmdir $dir/tests 2>/dev/null
echo "== with change: existing tests"; cargo test -p $crate --offline 2>&1 | grep -E "^test result|FAILED|error\[" | sort | uniq -c | head -20
git checkout -q -- .
git status --short | head -5
