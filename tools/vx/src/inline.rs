//! Helper inlining. A function under contract that calls a function of the same source file which nothing in the unit knows
//! (no overlay entry, no model, not named by any directive) — typically a private helper introduced by an extract-method
//! refactoring — is extracted with the helper's body in place of the call. Inlining is semantics-preserving, so the contract
//! of the caller then decides the change; without it the call would be an unknown name (undecided, exit 2).
//!
//! What is inlined: `self.h(..)`, `PLACE.h(..)` (PLACE = `a.b.c`), `PLACE.lock().unwrap().h(..)`, `Self::h(..)`, `Type::h(..)`,
//! `h(..)`, each optionally `.await`ed (async helpers), and `x.map_err(h)` (a helper used as a function value).
//! What is not (left as a call; `check` then reports "undecided"): helpers with `return` / `?` outside closures, pattern
//! parameters, turbofish calls, recursion deeper than 3, ambiguous names.
//! The helper's parameters and locals are renamed (`x` -> `x__hN`) so that no name-based rule of the extractor (overlay-named
//! locals, mutex locals, closure names) applies to them by accident; parameters whose argument is a place or a reference to a
//! place are substituted, so that the extractor's path rules (`self.inner.slots..`) see the real path.

use crate::{attrs_cfg_pub, type_last_ident_pub};
use proc_macro2::{Group, TokenStream, TokenTree};
use quote::ToTokens;
use std::collections::{BTreeMap, BTreeSet};
use syn::visit_mut::VisitMut;
use syn::*;

pub struct Inliner<'a> {
    pub files: Vec<&'a File>, // the function's own file first, then the unit's other sources
    pub known: &'a BTreeSet<String>,
    pub known_typed: &'a BTreeSet<String>,
    pub directive_words: &'a BTreeSet<String>,
    pub field_types: &'a BTreeMap<(String, String), String>,
    pub impl_ty: Option<String>,
    pub depth: usize,
    pub counter: usize,
    pub notes: Vec<String>,
}

#[derive(Clone)]
enum Kind {
    Free,
    Assoc(String),
    AnyImpl,
}

enum Recv {
    None,
    SelfSame,
    Place(Expr),
    LockTemp(Expr),
}

pub fn has_early_exit(b: &Block) -> bool {
    struct V(bool);
    impl<'ast> syn::visit::Visit<'ast> for V {
        fn visit_expr_return(&mut self, _: &'ast ExprReturn) {
            self.0 = true;
        }
        fn visit_expr_try(&mut self, _: &'ast ExprTry) {
            self.0 = true;
        }
        fn visit_expr_closure(&mut self, _: &'ast ExprClosure) {}
        fn visit_expr_async(&mut self, _: &'ast ExprAsync) {}
        fn visit_item(&mut self, _: &'ast Item) {}
    }
    let mut v = V(false);
    syn::visit::Visit::visit_block(&mut v, b);
    v.0
}

/// `a`, `a.b.c`, `self.x`: a place that can be named twice without evaluating anything
pub fn is_place(e: &Expr) -> bool {
    match e {
        Expr::Path(p) => p.path.segments.len() == 1 && p.qself.is_none(),
        Expr::Field(f) => is_place(&f.base),
        Expr::Paren(p) => is_place(&p.expr),
        _ => false,
    }
}

/// `P.lock().unwrap()` / `.read().unwrap()` / `.write().unwrap()` with P a place
fn lock_temp_place(e: &Expr) -> Option<&Expr> {
    if let Expr::MethodCall(m) = e {
        if (m.method == "unwrap" || m.method == "expect") && m.turbofish.is_none() {
            if let Expr::MethodCall(l) = &*m.receiver {
                if (l.method == "lock" || l.method == "read" || l.method == "write") && l.args.is_empty() && is_place(&l.receiver) {
                    return Some(&l.receiver);
                }
            }
        }
    }
    None
}

fn strip_wrappers<'s>(ty: &'s str, wrappers: &[&str]) -> &'s str {
    let mut t = ty;
    loop {
        let mut t0 = t.trim_start_matches('&');
        if t0.starts_with('\'') {
            // &'a T
            let rest: &str = t0[1..].trim_start_matches(|c: char| c.is_alphanumeric() || c == '_');
            t0 = rest;
        }
        let t0 = t0.strip_prefix("mut").filter(|r| !r.starts_with(|c: char| c.is_alphanumeric() || c == '_')).unwrap_or(t0);
        let mut stripped = None;
        for w in wrappers {
            for pre in ["", "std::sync::", "sync::"] {
                if let Some(r) = t0.strip_prefix(&format!("{}{}<", pre, w)) {
                    stripped = Some(r);
                }
            }
        }
        match stripped {
            Some(r) => t = r,
            None => return t0,
        }
    }
}

fn head_ident(t: &str) -> Option<String> {
    let name: String = t.chars().take_while(|c| c.is_alphanumeric() || *c == '_').collect();
    if name.is_empty() {
        None
    } else {
        Some(name)
    }
}

impl<'a> Inliner<'a> {
    fn field_type_str(&self, e: &Expr) -> Option<&String> {
        if let Expr::Field(f) = e {
            let base = self.place_type(&f.base)?;
            let fname = match &f.member {
                Member::Named(i) => i.to_string(),
                _ => return None,
            };
            return self.field_types.get(&(base, fname));
        }
        if let Expr::Paren(p) = e {
            return self.field_type_str(&p.expr);
        }
        None
    }

    /// the struct a place expression denotes, as far as the unit's struct table tells (`self.inner` -> `PoolInner`)
    fn place_type(&self, e: &Expr) -> Option<String> {
        match e {
            Expr::Paren(p) => self.place_type(&p.expr),
            Expr::Path(p) if p.path.is_ident("self") => self.impl_ty.clone(),
            Expr::Field(_) => {
                let ty = self.field_type_str(e)?;
                head_ident(strip_wrappers(ty, &["Arc", "Box", "Rc"]))
            }
            _ => None,
        }
    }

    fn lookup(&self, name: &str, kind: &Kind, method: bool) -> Option<(Signature, Block, Option<String>, Vec<String>)> {
        match kind {
            Kind::Assoc(t) => {
                if self.known_typed.contains(&format!("{}::{}", t, name)) || self.directive_words.contains(name) {
                    return None;
                }
            }
            _ => {
                if self.known.contains(name) {
                    return None;
                }
            }
        }
        fn walk(items: &[Item], name: &str, kind: &Kind, method: bool, out: &mut Vec<(Signature, Block, Option<String>, Vec<String>)>) {
            for it in items {
                match it {
                    Item::Fn(f) if matches!(kind, Kind::Free) && f.sig.ident == name && attrs_cfg_pub(&f.attrs) => out.push((f.sig.clone(), (*f.block).clone(), None, vec![])),
                    // inherent impls; a trait impl only for `Type::name(..)` paths (e.g. `T::default()` of a hand-written `Default`)
                    Item::Impl(im) if (im.trait_.is_none() || (!method && matches!(kind, Kind::Assoc(_)))) && attrs_cfg_pub(&im.attrs) && !matches!(kind, Kind::Free) => {
                        let tn = type_last_ident_pub(&im.self_ty);
                        if let Kind::Assoc(t) = kind {
                            if tn.as_deref() != Some(t.as_str()) {
                                continue;
                            }
                        }
                        for ii in im.items.iter() {
                            if let ImplItem::Fn(f) = ii {
                                let has_recv = matches!(f.sig.inputs.first(), Some(FnArg::Receiver(_)));
                                if f.sig.ident == name && attrs_cfg_pub(&f.attrs) && has_recv == method {
                                    out.push((f.sig.clone(), f.block.clone(), tn.clone(), im.generics.params.iter().filter_map(|g| match g { GenericParam::Type(t) => Some(t.ident.to_string()), _ => None }).collect()));
                                }
                            }
                        }
                    }
                    Item::Mod(m) => {
                        if let Some((_, items)) = &m.content {
                            walk(items, name, kind, method, out);
                        }
                    }
                    _ => {}
                }
            }
        }
        // the function's own file decides; the other sources of the unit are searched only if it has no candidate
        for f in self.files.iter() {
            let mut out = vec![];
            walk(&f.items, name, kind, method, &mut out);
            if out.len() == 1 {
                return out.pop();
            }
            if out.len() > 1 {
                return None;
            }
        }
        None
    }

    /// the replacement expression for a call of `name` with `args`, or None
    fn inline(&mut self, name: &str, args: &[Expr], kind: Kind, recv: Recv, awaited: bool) -> Option<Expr> {
        if self.depth >= 3 {
            return None;
        }
        let method = !matches!(recv, Recv::None);
        let (sig, mut block, helper_ty, impl_generics) = self.lookup(name, &kind, method)?;
        // a method of the caller's own impl block shares its generic parameters: types may be written as they are
        let same_impl = matches!(recv, Recv::SelfSame);
        let mentions_generic = |tt: &str| !same_impl && tt.split(|c: char| !(c.is_alphanumeric() || c == '_')).any(|w| impl_generics.iter().any(|g| g == w));
        if sig.asyncness.is_some() != awaited {
            return None;
        }
        crate::DesugarLetElse.visit_block_mut(&mut block);
        if has_early_exit(&block) {
            // early exits become nesting where the shape allows it
            let option = matches!(&sig.output, ReturnType::Type(_, t) if type_last_ident_pub(t).as_deref() == Some("Option"));
            let mut ee = ExitElim { option, ctr: 0 };
            match ee.nest(block.stmts.clone()) {
                Some(st) if !has_early_exit(&Block { brace_token: Default::default(), stmts: st.clone() }) => {
                    block.stmts = st;
                    self.notes.push(format!("helper `{}`: early exits rewritten as nesting", name));
                }
                _ => {
                    self.notes.push(format!("helper `{}` has `return` / `?` in a position that cannot be nested: not inlined", name));
                    return None;
                }
            }
        }
        let mut params: Vec<(String, bool, Type)> = vec![];
        for inp in sig.inputs.iter() {
            if let FnArg::Typed(pt) = inp {
                match &*pt.pat {
                    Pat::Ident(pi) if pi.by_ref.is_none() && pi.subpat.is_none() => params.push((pi.ident.to_string(), pi.mutability.is_some(), (*pt.ty).clone())),
                    _ => return None,
                }
            }
        }
        if params.len() != args.len() {
            return None;
        }
        self.counter += 1;
        let n = self.counter;
        crate::DesugarLetElse.visit_block_mut(&mut block);
        // `Self` of the helper's impl
        if let Some(t) = &helper_ty {
            let mut ss = SubstSelfType { with: t.clone() };
            ss.visit_block_mut(&mut block);
        }
        // receiver
        let mut prelude: Vec<Stmt> = vec![];
        match &recv {
            Recv::None | Recv::SelfSame => {}
            Recv::Place(r) => {
                let mut sub = SubstSelf { with: r.clone() };
                sub.visit_block_mut(&mut block);
            }
            Recv::LockTemp(r) => {
                let g = Ident::new(&format!("__vx_g__h{}", n), proc_macro2::Span::call_site());
                prelude.push(parse_quote!(let mut #g = #r;));
                let mut sub = SubstSelf { with: parse_quote!(#g) };
                sub.visit_block_mut(&mut block);
            }
        }
        // hygiene: parameters and locals get a suffix
        let mut names: BTreeSet<String> = params.iter().map(|p| p.0.clone()).collect();
        collect_bindings(&block, &mut names);
        let map: BTreeMap<String, String> = names.iter().map(|x| (x.clone(), format!("{}__h{}", x, n))).collect();
        let mut hr = HygieneRename { map: &map };
        hr.visit_block_mut(&mut block);
        // parameters: substitute places, bind the rest
        let mut bind_pats: Vec<Pat> = vec![];
        let mut bind_tys: Vec<Type> = vec![];
        let mut bind_args: Vec<Expr> = vec![];
        let mut annotate = sig.generics.params.is_empty();
        for ((pname, is_mut, ty), arg) in params.iter().zip(args.iter()) {
            let renamed = map.get(pname).unwrap().clone();
            let (inner, is_ref) = match arg {
                Expr::Reference(r) => (&*r.expr, true),
                other => (other, false),
            };
            if !is_mut && is_place(inner) {
                let mut sp = SubstParam { name: renamed, place: inner.clone(), full: arg.clone(), is_ref };
                sp.visit_block_mut(&mut block);
                continue;
            }
            let id = Ident::new(&renamed, proc_macro2::Span::call_site());
            bind_pats.push(if *is_mut { parse_quote!(mut #id) } else { parse_quote!(#id) });
            let tt = ty.to_token_stream().to_string();
            if tt.contains("impl ") || tt.contains('\'') || mentions_generic(&tt) {
                annotate = false;
            }
            bind_tys.push(ty.clone());
            bind_args.push(arg.clone());
        }
        // nested helpers (in the helper's own context)
        let saved_ty = self.impl_ty.clone();
        if let Some(t) = &helper_ty {
            if matches!(recv, Recv::None | Recv::SelfSame) {
                self.impl_ty = Some(t.clone());
            }
        }
        self.depth += 1;
        self.visit_block_mut(&mut block);
        self.depth -= 1;
        self.impl_ty = saved_ty;
        self.notes.push(format!("helper `{}` inlined", name));
        let stmts = &block.stmts;
        if !bind_pats.is_empty() {
            if annotate {
                prelude.push(parse_quote!(let (#(#bind_pats,)*): (#(#bind_tys,)*) = (#(#bind_args,)*);));
            } else {
                prelude.push(parse_quote!(let (#(#bind_pats,)*) = (#(#bind_args,)*);));
            }
        }
        let ret_annot: Option<Type> = match &sig.output {
            ReturnType::Type(_, t) => {
                let mut t2 = (**t).clone();
                if let Some(ht) = &helper_ty {
                    let mut ss = SubstSelfType { with: ht.clone() };
                    ss.visit_type_mut(&mut t2);
                }
                let tt = t2.to_token_stream().to_string();
                let bare_generic_self = !same_impl && !impl_generics.is_empty() && helper_ty.as_ref().map(|h| tt.split(|c: char| !(c.is_alphanumeric() || c == '_')).any(|w| w == h)).unwrap_or(false);
                if tt.contains("impl ") || tt.contains('\'') || mentions_generic(&tt) || bare_generic_self || !sig.generics.params.is_empty() || tt.split(|c: char| !(c.is_alphanumeric() || c == '_')).any(|w| w == "Self") {
                    None
                } else {
                    Some(t2)
                }
            }
            ReturnType::Default => None,
        };
        // a helper that is one expression (after substitution of its parameters) stays one expression: the extractor's rules for
        // `if let Some(p) = w.upgrade()`, lock temporaries etc. see it as if it had been written in place
        if prelude.is_empty() && stmts.len() == 1 {
            if let Stmt::Expr(e1, None) = &stmts[0] {
                if !matches!(e1, Expr::Block(_) | Expr::If(_) | Expr::Match(_) | Expr::Loop(_) | Expr::While(_) | Expr::ForLoop(_)) {
                    let e1 = e1.clone();
                    return Some(parse_quote!((#e1)));
                }
            }
        }
        let e: Expr = if prelude.is_empty() && ret_annot.is_none() {
            parse_quote!({ #(#stmts)* })
        } else {
            match ret_annot {
                Some(rt) => {
                    let rv = Ident::new(&format!("__vx_inl__h{}", n), proc_macro2::Span::call_site());
                    parse_quote!({ #(#prelude)* let #rv: #rt = { #(#stmts)* }; #rv })
                }
                None => parse_quote!({ #(#prelude)* #(#stmts)* }),
            }
        };
        Some(e)
    }

    fn try_call(&mut self, e: &Expr, awaited: bool) -> Option<Expr> {
        match e {
            Expr::MethodCall(mc) => {
                if mc.turbofish.is_some() {
                    return None;
                }
                let args: Vec<Expr> = mc.args.iter().cloned().collect();
                let name = mc.method.to_string();
                if let Expr::Path(p) = &*mc.receiver {
                    if p.path.is_ident("self") {
                        let t = self.impl_ty.clone()?;
                        return self.inline(&name, &args, Kind::Assoc(t), Recv::SelfSame, awaited);
                    }
                }
                if is_place(&mc.receiver) {
                    let recv = (*mc.receiver).clone();
                    let kind = match self.place_type(&recv) {
                        Some(t) => Kind::Assoc(t),
                        None => Kind::AnyImpl,
                    };
                    return self.inline(&name, &args, kind, Recv::Place(recv), awaited);
                }
                if let Some(p) = lock_temp_place(&mc.receiver) {
                    let ty = self.field_type_str(p)?;
                    let t = head_ident(strip_wrappers(ty, &["Arc", "Box", "Rc", "Mutex", "RwLock"]))?;
                    return self.inline(&name, &args, Kind::Assoc(t), Recv::LockTemp((*mc.receiver).clone()), awaited);
                }
                None
            }
            Expr::Call(c) => {
                if let Expr::Path(p) = &*c.func {
                    if p.qself.is_some() || p.path.segments.iter().any(|s| !s.arguments.is_empty()) {
                        return None;
                    }
                    let segs: Vec<String> = p.path.segments.iter().map(|s| s.ident.to_string()).collect();
                    let args: Vec<Expr> = c.args.iter().cloned().collect();
                    if segs.len() == 1 {
                        return self.inline(&segs[0], &args, Kind::Free, Recv::None, awaited);
                    }
                    if segs.len() == 2 {
                        let t = if segs[0] == "Self" { self.impl_ty.clone()? } else { segs[0].clone() };
                        return self.inline(&segs[1], &args, Kind::Assoc(t), Recv::None, awaited);
                    }
                }
                None
            }
            _ => None,
        }
    }
}

impl<'a> VisitMut for Inliner<'a> {
    fn visit_expr_mut(&mut self, e: &mut Expr) {
        // arguments / sub-expressions first
        syn::visit_mut::visit_expr_mut(self, e);
        // `x.map_err(helper)`: a helper named as a function value becomes `|a| helper(a)` first
        if let Expr::MethodCall(mc) = e {
            if mc.args.len() == 1 {
                if let Expr::Path(p) = &mc.args[0] {
                    if p.qself.is_none() && p.path.segments.iter().all(|s| s.arguments.is_empty()) && p.path.segments.len() <= 2 {
                        let f = mc.args[0].clone();
                        let call: Expr = parse_quote!(#f(__vx_a));
                        if let Some(body) = self.try_call(&call, false) {
                            mc.args[0] = parse_quote!(|__vx_a| #body);
                        }
                    }
                }
            }
        }
        let repl = match e {
            Expr::Await(aw) => self.try_call(&aw.base, true),
            Expr::MethodCall(_) | Expr::Call(_) => self.try_call(e, false),
            _ => None,
        };
        if let Some(r) = repl {
            *e = r;
        }
    }
}

// ---------------------------------------------------------------- substitutions

/// `self` -> a place expression
struct SubstSelf {
    with: Expr,
}
impl VisitMut for SubstSelf {
    fn visit_expr_mut(&mut self, e: &mut Expr) {
        if let Expr::Path(p) = e {
            if p.path.is_ident("self") {
                *e = self.with.clone();
                return;
            }
        }
        syn::visit_mut::visit_expr_mut(self, e);
    }
}

/// `Self` (the helper's impl type) -> its name
struct SubstSelfType {
    with: String,
}
impl VisitMut for SubstSelfType {
    fn visit_path_mut(&mut self, p: &mut Path) {
        if let Some(first) = p.segments.first_mut() {
            if first.ident == "Self" {
                first.ident = Ident::new(&self.with, first.ident.span());
            }
        }
        syn::visit_mut::visit_path_mut(self, p);
    }
}

/// a parameter whose argument is `PLACE` / `&PLACE` / `&mut PLACE`: uses become the place (as a receiver or field base, where
/// auto-ref applies) or the argument as written (everywhere else)
struct SubstParam {
    name: String,
    place: Expr,
    full: Expr,
    is_ref: bool,
}
impl SubstParam {
    fn is_me(&self, e: &Expr) -> bool {
        matches!(e, Expr::Path(p) if p.qself.is_none() && p.path.is_ident(&self.name))
    }
}
fn pat_binds(p: &Pat, name: &str) -> bool {
    struct V<'n>(&'n str, bool);
    impl<'ast, 'n> syn::visit::Visit<'ast> for V<'n> {
        fn visit_pat_ident(&mut self, p: &'ast PatIdent) {
            if p.ident == self.0 {
                self.1 = true;
            }
            syn::visit::visit_pat_ident(self, p);
        }
    }
    let mut v = V(name, false);
    syn::visit::Visit::visit_pat(&mut v, p);
    v.1
}

impl VisitMut for SubstParam {
    // shadowing: where the name is bound again, it no longer means the parameter
    fn visit_block_mut(&mut self, b: &mut Block) {
        for st in b.stmts.iter_mut() {
            if let Stmt::Local(l) = st {
                if let Some(init) = &mut l.init {
                    self.visit_expr_mut(&mut init.expr);
                    if let Some((_, d)) = &mut init.diverge {
                        self.visit_expr_mut(d);
                    }
                }
                if pat_binds(&l.pat, &self.name) {
                    return;
                }
                continue;
            }
            self.visit_stmt_mut(st);
        }
    }
    fn visit_arm_mut(&mut self, a: &mut Arm) {
        if pat_binds(&a.pat, &self.name) {
            return;
        }
        syn::visit_mut::visit_arm_mut(self, a);
    }
    fn visit_expr_closure_mut(&mut self, c: &mut ExprClosure) {
        if c.inputs.iter().any(|p| pat_binds(p, &self.name)) {
            return;
        }
        syn::visit_mut::visit_expr_closure_mut(self, c);
    }
    fn visit_expr_if_mut(&mut self, i: &mut ExprIf) {
        if let Expr::Let(l) = &mut *i.cond {
            self.visit_expr_mut(&mut l.expr);
            if !pat_binds(&l.pat, &self.name) {
                self.visit_block_mut(&mut i.then_branch);
            }
            if let Some((_, e)) = &mut i.else_branch {
                self.visit_expr_mut(e);
            }
            return;
        }
        syn::visit_mut::visit_expr_if_mut(self, i);
    }
    fn visit_expr_mut(&mut self, e: &mut Expr) {
        match e {
            Expr::Field(f) if self.is_me(&f.base) => {
                *f.base = self.place.clone();
                return;
            }
            Expr::MethodCall(m) if self.is_me(&m.receiver) => {
                *m.receiver = self.place.clone();
                for a in m.args.iter_mut() {
                    self.visit_expr_mut(a);
                }
                return;
            }
            Expr::Unary(u) if matches!(u.op, UnOp::Deref(_)) && self.is_ref && self.is_me(&u.expr) => {
                *e = self.place.clone();
                return;
            }
            _ => {}
        }
        if self.is_me(e) {
            *e = self.full.clone();
            return;
        }
        syn::visit_mut::visit_expr_mut(self, e);
    }
    fn visit_field_value_mut(&mut self, f: &mut FieldValue) {
        if f.colon_token.is_none() {
            if let Member::Named(id) = &f.member {
                if *id == self.name {
                    f.colon_token = Some(Default::default());
                }
            }
        }
        syn::visit_mut::visit_field_value_mut(self, f);
    }
}

/// names bound inside a block: `let` patterns, match arms, closure parameters, `for` patterns (lower-case identifiers only:
/// `None` in a pattern parses as an identifier pattern too)
fn collect_bindings(b: &Block, out: &mut BTreeSet<String>) {
    struct V<'o>(&'o mut BTreeSet<String>);
    impl<'ast, 'o> syn::visit::Visit<'ast> for V<'o> {
        fn visit_pat_ident(&mut self, p: &'ast PatIdent) {
            let n = p.ident.to_string();
            if n.starts_with(|c: char| c.is_lowercase() || c == '_') && n != "self" && n != "_" {
                self.0.insert(n);
            }
            syn::visit::visit_pat_ident(self, p);
        }
        fn visit_field_pat(&mut self, f: &'ast FieldPat) {
            syn::visit::visit_field_pat(self, f);
        }
        fn visit_item(&mut self, _: &'ast Item) {}
    }
    let mut v = V(out);
    syn::visit::Visit::visit_block(&mut v, b);
}

struct HygieneRename<'m> {
    map: &'m BTreeMap<String, String>,
}
impl<'m> HygieneRename<'m> {
    fn rn(&self, i: &Ident) -> Option<Ident> {
        self.map.get(&i.to_string()).map(|n| Ident::new(n, i.span()))
    }
    fn tokens(&self, ts: TokenStream) -> TokenStream {
        ts.into_iter()
            .map(|tt| match tt {
                TokenTree::Ident(i) => TokenTree::Ident(self.rn(&i).unwrap_or(i)),
                // inline format arguments name locals inside the string: `format!("{n}")`
                TokenTree::Literal(l) => {
                    let txt = l.to_string();
                    if txt.starts_with('"') && txt.contains('{') {
                        let mut t2 = txt.clone();
                        for (from, to) in self.map.iter() {
                            t2 = t2.replace(&format!("{{{}}}", from), &format!("{{{}}}", to)).replace(&format!("{{{}:", from), &format!("{{{}:", to));
                        }
                        if t2 != txt {
                            if let Ok(ts) = t2.parse::<TokenStream>() {
                                if let Some(TokenTree::Literal(nl)) = ts.into_iter().next() {
                                    return TokenTree::Literal(nl);
                                }
                            }
                        }
                    }
                    TokenTree::Literal(l)
                }
                TokenTree::Group(g) => {
                    let mut ng = Group::new(g.delimiter(), self.tokens(g.stream()));
                    ng.set_span(g.span());
                    TokenTree::Group(ng)
                }
                other => other,
            })
            .collect()
    }
}
impl<'m> VisitMut for HygieneRename<'m> {
    fn visit_pat_ident_mut(&mut self, p: &mut PatIdent) {
        if let Some(n) = self.rn(&p.ident) {
            p.ident = n;
        }
        syn::visit_mut::visit_pat_ident_mut(self, p);
    }
    fn visit_expr_path_mut(&mut self, p: &mut ExprPath) {
        if p.qself.is_none() && p.path.segments.len() == 1 && p.path.segments[0].arguments.is_empty() {
            if let Some(n) = self.rn(&p.path.segments[0].ident) {
                p.path.segments[0].ident = n;
            }
        }
        syn::visit_mut::visit_expr_path_mut(self, p);
    }
    fn visit_field_value_mut(&mut self, f: &mut FieldValue) {
        // `S { x }` is `S { x: x }`
        if f.colon_token.is_none() {
            if let Member::Named(id) = &f.member {
                if self.map.contains_key(&id.to_string()) {
                    f.colon_token = Some(Default::default());
                }
            }
        }
        self.visit_expr_mut(&mut f.expr);
    }
    fn visit_field_pat_mut(&mut self, f: &mut FieldPat) {
        // `S { x }` in a pattern is `S { x: x }`
        if f.colon_token.is_none() {
            if let Member::Named(id) = &f.member {
                if self.map.contains_key(&id.to_string()) {
                    f.colon_token = Some(Default::default());
                }
            }
        }
        self.visit_pat_mut(&mut f.pat);
    }
    fn visit_macro_mut(&mut self, m: &mut Macro) {
        m.tokens = self.tokens(m.tokens.clone());
    }
    fn visit_item_mut(&mut self, _: &mut Item) {}
}

// ---------------------------------------------------------------- early exits of a helper body
//
// A helper can only stand in place of its call if its body is an expression. `return X` and `E?` are therefore rewritten
// into nesting (no code is dropped; code after an `if` that may fall through is duplicated into its branches):
//     let p = E?; REST            =>  match E { Ok(p) => { REST }, Err(e) => <the error the `?` returns> }
//     if c { ..; return X; } REST =>  if c { ..; X } else { REST }
//     let p = match S { A => v, B => return X }; REST
//                                 =>  match S { A => { let p = v; REST }, B => X }
//     return X;                   =>  X
// `E?` nested in an expression is hoisted when everything evaluated before it is pure (places, literals). Early exits inside
// loops, closures being fine, or in any position not listed make the helper "not inlinable" (undecided, no alarm).
// The error value of `?` is written `__vx_tryerr!(e)`; the elaboration expands it exactly as it expands `?` in the caller.

pub struct ExitElim {
    pub option: bool,
    pub ctr: usize,
}

fn expr_has_exit(e: &Expr) -> bool {
    struct V(bool);
    impl<'ast> syn::visit::Visit<'ast> for V {
        fn visit_expr_return(&mut self, _: &'ast ExprReturn) {
            self.0 = true;
        }
        fn visit_expr_try(&mut self, _: &'ast ExprTry) {
            self.0 = true;
        }
        fn visit_expr_closure(&mut self, _: &'ast ExprClosure) {}
        fn visit_expr_async(&mut self, _: &'ast ExprAsync) {}
        fn visit_item(&mut self, _: &'ast Item) {}
    }
    let mut v = V(false);
    syn::visit::Visit::visit_expr(&mut v, e);
    v.0
}

fn stmt_has_exit(s: &Stmt) -> bool {
    match s {
        Stmt::Local(l) => l.init.as_ref().map(|i| expr_has_exit(&i.expr) || i.diverge.as_ref().map(|(_, d)| expr_has_exit(d)).unwrap_or(false)).unwrap_or(false),
        Stmt::Expr(e, _) => expr_has_exit(e),
        Stmt::Macro(_) => false,
        Stmt::Item(_) => false,
    }
}

fn stmts_always_exit(b: &[Stmt]) -> bool {
    match b.last() {
        Some(Stmt::Expr(e, _)) => expr_always_exits(e),
        _ => false,
    }
}

fn expr_always_exits(e: &Expr) -> bool {
    match e {
        Expr::Return(_) => true,
        Expr::Paren(p) => expr_always_exits(&p.expr),
        Expr::Block(b) => stmts_always_exit(&b.block.stmts),
        Expr::If(i) => stmts_always_exit(&i.then_branch.stmts) && i.else_branch.as_ref().map(|(_, e)| expr_always_exits(e)).unwrap_or(false),
        Expr::Match(m) => !m.arms.is_empty() && m.arms.iter().all(|a| expr_always_exits(&a.body)),
        _ => false,
    }
}

/// nothing observable happens when this is evaluated (so an `E?` to its right may be evaluated before it)
fn pure_expr(e: &Expr) -> bool {
    match e {
        Expr::Path(_) | Expr::Lit(_) => true,
        Expr::Field(f) => pure_expr(&f.base),
        Expr::Paren(p) => pure_expr(&p.expr),
        Expr::Reference(r) => pure_expr(&r.expr),
        Expr::Unary(u) => pure_expr(&u.expr),
        Expr::Cast(c) => pure_expr(&c.expr),
        Expr::Binary(b) => pure_expr(&b.left) && pure_expr(&b.right),
        _ => false,
    }
}

/// take the first-evaluated `E?` out of `e` (replacing it by `repl`) and return E
fn take_head_try(e: &mut Expr, repl: &Expr) -> Option<Expr> {
    fn seq<'x>(parts: Vec<&'x mut Expr>, repl: &Expr) -> Option<Expr> {
        for p in parts {
            if let Some(x) = take_head_try(p, repl) {
                return Some(x);
            }
            if expr_has_exit(p) || !pure_expr(p) {
                return None;
            }
        }
        None
    }
    match e {
        Expr::Try(t) => {
            if let Some(x) = take_head_try(&mut t.expr, repl) {
                return Some(x);
            }
            if expr_has_exit(&t.expr) {
                return None;
            }
            let inner = (*t.expr).clone();
            *e = repl.clone();
            Some(inner)
        }
        Expr::MethodCall(m) => {
            let mut parts: Vec<&mut Expr> = vec![&mut *m.receiver];
            parts.extend(m.args.iter_mut());
            seq(parts, repl)
        }
        Expr::Call(c) => {
            if !matches!(&*c.func, Expr::Path(_)) {
                return None;
            }
            seq(c.args.iter_mut().collect(), repl)
        }
        Expr::Field(f) => take_head_try(&mut f.base, repl),
        Expr::Paren(p) => take_head_try(&mut p.expr, repl),
        Expr::Reference(r) => take_head_try(&mut r.expr, repl),
        Expr::Unary(u) => take_head_try(&mut u.expr, repl),
        Expr::Cast(c) => take_head_try(&mut c.expr, repl),
        Expr::Await(a) => take_head_try(&mut a.base, repl),
        Expr::Binary(b) => seq(vec![&mut *b.left, &mut *b.right], repl),
        Expr::Tuple(t) => seq(t.elems.iter_mut().collect(), repl),
        Expr::Struct(s) if s.rest.is_none() => seq(s.fields.iter_mut().map(|f| &mut f.expr).collect(), repl),
        Expr::Match(m) => take_head_try(&mut m.expr, repl),
        Expr::If(i) => match &mut *i.cond {
            Expr::Let(l) => take_head_try(&mut l.expr, repl),
            c => take_head_try(c, repl),
        },
        _ => None,
    }
}

fn top_level_lets(b: &[Stmt], out: &mut BTreeSet<String>) {
    for s in b {
        if let Stmt::Local(l) = s {
            pat_names(&l.pat, out);
        }
    }
}

fn pat_names(p: &Pat, out: &mut BTreeSet<String>) {
    struct V<'o>(&'o mut BTreeSet<String>);
    impl<'ast, 'o> syn::visit::Visit<'ast> for V<'o> {
        fn visit_pat_ident(&mut self, p: &'ast PatIdent) {
            self.0.insert(p.ident.to_string());
            syn::visit::visit_pat_ident(self, p);
        }
    }
    let mut v = V(out);
    syn::visit::Visit::visit_pat(&mut v, p);
}

fn idents_of(stmts: &[Stmt]) -> BTreeSet<String> {
    let mut out = BTreeSet::new();
    fn walk(ts: TokenStream, out: &mut BTreeSet<String>) {
        for tt in ts {
            match tt {
                TokenTree::Ident(i) => {
                    out.insert(i.to_string());
                }
                TokenTree::Group(g) => walk(g.stream(), out),
                _ => {}
            }
        }
    }
    for s in stmts {
        walk(s.to_token_stream(), &mut out);
    }
    out
}

impl ExitElim {
    fn fresh(&mut self, base: &str) -> Ident {
        self.ctr += 1;
        Ident::new(&format!("__vx_{}{}", base, self.ctr), proc_macro2::Span::call_site())
    }

    /// `match E { Ok(PAT) => { BODY }, Err(e) => <error of ?> }` (Option: `Some(PAT)` / `None => None`)
    fn try_match(&mut self, scrutinee: Expr, pat: Pat, body: Vec<Stmt>) -> Expr {
        if self.option {
            parse_quote!(match #scrutinee { Some(#pat) => { #(#body)* } None => None, })
        } else {
            let e = self.fresh("e");
            parse_quote!(match #scrutinee { Ok(#pat) => { #(#body)* } Err(#e) => __vx_tryerr!(#e), })
        }
    }

    /// a statement list whose value is what the function returns; None = a shape outside the supported ones
    pub fn nest(&mut self, stmts: Vec<Stmt>) -> Option<Vec<Stmt>> {
        let mut out = vec![];
        let mut it: std::collections::VecDeque<Stmt> = stmts.into_iter().collect();
        while let Some(s) = it.pop_front() {
            if !stmt_has_exit(&s) {
                out.push(s);
                continue;
            }
            let rest: Vec<Stmt> = it.into_iter().collect();
            let tail = self.split(s, rest)?;
            out.push(Stmt::Expr(tail, None));
            return Some(out);
        }
        Some(out)
    }

    /// the value of `s; rest` as one expression
    fn split(&mut self, s: Stmt, rest: Vec<Stmt>) -> Option<Expr> {
        match s {
            Stmt::Local(mut l) => {
                let init = l.init.take()?;
                if init.diverge.is_some() {
                    return None;
                }
                let mut e = *init.expr;
                let ctl = matches!(&e, Expr::If(i) if !expr_has_exit(&i.cond)) || matches!(&e, Expr::Match(m) if !expr_has_exit(&m.expr)) || matches!(&e, Expr::Block(b) if b.label.is_none());
                if ctl {
                    return self.join(e, Some(l.pat.clone()), false, rest);
                }
                let q = self.fresh("q");
                let inner = take_head_try(&mut e, &parse_quote!(#q))?;
                l.init = Some(LocalInit { eq_token: init.eq_token, expr: Box::new(e), diverge: None });
                let mut body = vec![Stmt::Local(l)];
                body.extend(rest);
                let body = self.nest(body)?;
                Some(self.try_match(inner, parse_quote!(#q), body))
            }
            Stmt::Expr(e, semi) => {
                if let Expr::Return(r) = e {
                    return Some(match r.expr {
                        Some(x) => {
                            if expr_has_exit(&x) {
                                // `return f(a?)`: the value first
                                let v = self.nest(vec![Stmt::Expr(*x, None)])?;
                                parse_quote!({ #(#v)* })
                            } else {
                                *x
                            }
                        }
                        None => parse_quote!(()),
                    });
                }
                let ctl = matches!(&e, Expr::If(i) if !expr_has_exit(&i.cond)) || matches!(&e, Expr::Match(m) if !expr_has_exit(&m.expr)) || matches!(&e, Expr::Block(b) if b.label.is_none());
                if ctl {
                    let value_pos = semi.is_none() && rest.is_empty();
                    return self.join(e, None, value_pos, rest);
                }
                let mut e = e;
                let q = self.fresh("q");
                let inner = take_head_try(&mut e, &parse_quote!(#q))?;
                let mut body = vec![Stmt::Expr(e, semi)];
                body.extend(rest);
                let body = self.nest(body)?;
                Some(self.try_match(inner, parse_quote!(#q), body))
            }
            _ => None,
        }
    }

    /// one branch of a control-flow statement followed by `rest`
    fn branch(&mut self, mut body: Vec<Stmt>, extra_bound: &BTreeSet<String>, bind: &Option<Pat>, value_pos: bool, rest: &[Stmt]) -> Option<Vec<Stmt>> {
        if stmts_always_exit(&body) {
            return self.nest(body);
        }
        if let Some(pat) = bind {
            let v: Expr = match body.last() {
                Some(Stmt::Expr(_, None)) => match body.pop() {
                    Some(Stmt::Expr(e, None)) => e,
                    _ => unreachable!(),
                },
                _ => parse_quote!(()),
            };
            body.push(parse_quote!(let #pat = #v;));
        } else if !value_pos {
            if let Some(Stmt::Expr(e, None)) = body.last().cloned() {
                body.pop();
                body.push(Stmt::Expr(e, Some(Default::default())));
            }
        }
        if !rest.is_empty() {
            // the continuation moves into the branch: nothing the branch binds may capture a name the continuation uses
            let mut bound = extra_bound.clone();
            let upto = if bind.is_some() { body.len() - 1 } else { body.len() };
            top_level_lets(&body[..upto], &mut bound);
            let used = idents_of(rest);
            if bound.iter().any(|b| used.contains(b)) {
                return None;
            }
            body.extend(rest.iter().cloned());
        }
        self.nest(body)
    }

    fn join(&mut self, e: Expr, bind: Option<Pat>, value_pos: bool, rest: Vec<Stmt>) -> Option<Expr> {
        let none = BTreeSet::new();
        match e {
            Expr::Block(b) => {
                let body = self.branch(b.block.stmts, &none, &bind, value_pos, &rest)?;
                Some(parse_quote!({ #(#body)* }))
            }
            Expr::If(i) => {
                let mut bound = BTreeSet::new();
                if let Expr::Let(l) = &*i.cond {
                    pat_names(&l.pat, &mut bound);
                }
                let cond = (*i.cond).clone();
                let then_b = self.branch(i.then_branch.stmts, &bound, &bind, value_pos, &rest)?;
                let else_stmts: Vec<Stmt> = match i.else_branch {
                    None => vec![],
                    Some((_, eb)) => match *eb {
                        Expr::Block(b) => b.block.stmts,
                        other => vec![Stmt::Expr(other, None)],
                    },
                };
                let else_b = self.branch(else_stmts, &none, &bind, value_pos, &rest)?;
                Some(parse_quote!(if #cond { #(#then_b)* } else { #(#else_b)* }))
            }
            Expr::Match(m) => {
                let scrut = (*m.expr).clone();
                let mut arms: Vec<Arm> = vec![];
                for a in m.arms.into_iter() {
                    if let Some((_, g)) = &a.guard {
                        if expr_has_exit(g) {
                            return None;
                        }
                    }
                    let mut bound = BTreeSet::new();
                    pat_names(&a.pat, &mut bound);
                    let body_stmts: Vec<Stmt> = match *a.body {
                        Expr::Block(b) if b.label.is_none() => b.block.stmts,
                        other => vec![Stmt::Expr(other, None)],
                    };
                    let body = self.branch(body_stmts, &bound, &bind, value_pos, &rest)?;
                    let pat = a.pat;
                    let arm: Arm = match a.guard {
                        Some((_, g)) => parse_quote!(#pat if #g => { #(#body)* }),
                        None => parse_quote!(#pat => { #(#body)* }),
                    };
                    arms.push(arm);
                }
                Some(parse_quote!(match #scrut { #(#arms)* }))
            }
            _ => None,
        }
    }
}
