//! Parser for the overlay / unit files (`contracts/*.vc`).
//!
//! Line based.  A directive starts at column 0; its block is the following lines that are
//! indented (or empty).  Inside `fn`, `struct` blocks, sub-directives start at the first
//! indentation level; their own blocks are the lines indented deeper.
use std::collections::BTreeMap;

#[derive(Debug, Default, Clone)]
pub struct Clause {
    pub label: Option<String>, // "C05 try_get.tokens_settled"
    pub text: String,
    pub variants: Option<String>, // "conc" | "iso" | None = both
}

#[derive(Debug, Default, Clone)]
pub struct LoopSpec {
    pub invariant: Vec<Clause>,
    pub invariant_except_break: Vec<Clause>,
    pub ensures: Vec<Clause>,
    pub decreases: Option<String>,
    pub collects: Option<String>,
    pub at: Option<String>, // header text of the loop this contract belongs to (whitespace-insensitive); otherwise by ordinal // type of the vector built by an expanded `iter().map(..).collect()`
    pub body: Vec<GhostStmt>,
    pub init: Vec<GhostStmt>,
}

#[derive(Debug, Default, Clone)]
pub struct GhostStmt {
    pub text: String,
    pub variants: Option<String>,
}

#[derive(Debug, Default, Clone)]
pub struct FnSpec {
    pub src: String,  // alias
    pub path: String, // Type::name or name
    pub rename: Option<String>,
    pub params: Vec<String>, // extra params, verbatim "name: Type"
    pub selfkind: Option<String>,
    pub ret_name: Option<String>,
    pub requires: Vec<Clause>,
    pub ensures: Vec<Clause>,
    pub before: BTreeMap<String, Vec<GhostStmt>>,
    pub after: BTreeMap<String, Vec<GhostStmt>>,
    pub loops: BTreeMap<usize, LoopSpec>,
    pub attrs: Vec<String>,
    pub poolpath: Option<String>,
    pub noextract_body: bool, // keep signature only? (unused)
    pub entry: Vec<GhostStmt>,
    pub props: Vec<String>,
    pub retype: Vec<(String, String)>,
    pub traitimpl: Option<String>,
    pub dropcalls: Vec<String>,            // argument-less methods that are the identity in this function (e.g. `.into()` once `T` was retyped)
    pub dropgenerics: Vec<String>,         // generic parameters of this function that a `retype` made unnecessary
    pub locals: Vec<(String, usize)>,      // `local NAME ORD`: a local the overlay names; if renamed in the source, the ORD-th `let` of the function
    pub closure: Option<usize>,            // this entry is the k-th closure literal of the function (lifted to a function)
    pub sig: Option<String>,               // signature of the lifted closure (captured variables become parameters)
    pub ctl: bool,                         // the lifted closure may unwind (panic): it returns Ctl<R>
    pub closurecalls: Vec<(usize, String)>, // closure literal #k of this function is replaced by this expression
    pub blocking: bool,                    // this code runs on a thread where blocking is allowed (C14)
    pub panics: Vec<String>,               // local closures whose call may panic (call returns Ctl<R>)
}

#[derive(Debug, Default, Clone)]
pub struct StructSpec {
    pub src: String,
    pub name: String,
    pub drop_fields: Vec<String>,
    pub ghost_fields: Vec<(String, String, String)>, // name, type, init
    pub retype: Vec<(String, String)>,
    pub derive: Vec<String>,
    pub rename: Option<String>,
}

#[derive(Debug, Default, Clone)]
pub struct Backref {
    pub ty: String,
    pub field: String,
    pub param: String,
    pub param_ty: String,
}

#[derive(Debug, Default, Clone)]
pub struct Unit {
    pub name: String,
    pub includes: Vec<String>,
    pub sources: BTreeMap<String, String>,
    pub dropgeneric: Vec<String>,
    pub tyrename: Vec<(String, String)>,
    pub assoc: Vec<(String, String)>,
    pub erase: Vec<String>,
    pub shared: Vec<String>,
    pub poolpath: Vec<(String, String)>,
    pub backrefs: Vec<Backref>,
    pub upgradelike: Vec<String>,
    pub futprod: Vec<String>,
    pub structs: Vec<StructSpec>,
    pub enums: Vec<StructSpec>,
    pub fns: Vec<FnSpec>,
    pub extasync: Vec<String>,
    pub callrename: Vec<(String, String)>,
    pub localcall: Vec<String>,
    pub verbatim: Vec<(Option<String>, String)>,
    pub dropcall: Vec<String>,
    pub puremethods: Vec<String>,
    pub lockinv: Vec<(String, String)>,
    pub poolcall: Vec<(String, String, String)>,
    pub unit_types: Vec<String>,
    pub methodfn: Vec<(String, String)>,
    pub pathrename: Vec<(String, String)>,
    pub methodval: Vec<(String, String)>,
    pub inlinecall: Vec<String>,
    pub optionmap: bool,
    pub resultmap: bool,
    pub mutexlocals: Vec<String>,
    pub poisonlocks: bool,
    pub blockingctx: bool,
    pub ctxfns: Vec<String>, // helper functions (targets of methodfn/methodval) that take the blocking-context flag as last argument // calls into user code / value destruction carry `true|false`: does this code run where blocking is allowed
    pub dropvalue: Option<String>,
    pub heapupgrade: Option<String>, // name of the heap parameter: `if let Some(x) = W.upgrade() { B }` runs B on the heap's object
    pub constfn: Vec<(String, String)>,
    pub argcall: Vec<(String, String, String)>,
    pub strlits: bool,
}

fn indent_of(l: &str) -> usize {
    l.len() - l.trim_start().len()
}

fn split_variant(word: &str) -> (String, Option<String>) {
    // "ensures@conc" -> ("ensures", Some("conc"))
    if let Some((a, b)) = word.split_once('@') {
        (a.to_string(), Some(b.to_string()))
    } else {
        (word.to_string(), None)
    }
}

/// Parse a list of clauses: every line that starts (after indentation) with `[` opens a
/// labelled clause, a line starting with `- ` opens an unlabelled one, other lines continue
/// the previous clause.
fn parse_clauses(lines: &[String], variants: Option<String>) -> Vec<Clause> {
    let mut out: Vec<Clause> = vec![];
    for l in lines {
        let t = l.trim();
        if t.is_empty() || t.starts_with("##") {
            continue;
        }
        if t.starts_with('[') {
            let end = t.find(']').expect("unterminated label");
            let label = t[1..end].trim().to_string();
            out.push(Clause {
                label: Some(label),
                text: t[end + 1..].trim().to_string(),
                variants: variants.clone(),
            });
        } else if let Some(rest) = t.strip_prefix("- ") {
            out.push(Clause {
                label: None,
                text: rest.trim().to_string(),
                variants: variants.clone(),
            });
        } else if let Some(last) = out.last_mut() {
            last.text.push(' ');
            last.text.push_str(t);
        } else {
            out.push(Clause {
                label: None,
                text: t.to_string(),
                variants: variants.clone(),
            });
        }
    }
    out
}

fn block_text(lines: &[String]) -> String {
    let min = lines
        .iter()
        .filter(|l| !l.trim().is_empty())
        .map(|l| indent_of(l))
        .min()
        .unwrap_or(0);
    lines
        .iter()
        .filter(|l| !l.trim_start().starts_with("##"))
        .map(|l| if l.len() >= min { l[min..].to_string() } else { String::new() })
        .collect::<Vec<_>>()
        .join("\n")
}

/// split a block into (header line, sub-lines) groups at the block's base indentation
fn groups(lines: &[String]) -> Vec<(String, Vec<String>)> {
    let base = lines
        .iter()
        .filter(|l| !l.trim().is_empty())
        .map(|l| indent_of(l))
        .min()
        .unwrap_or(0);
    let mut out: Vec<(String, Vec<String>)> = vec![];
    for l in lines {
        if l.trim().is_empty() {
            if let Some(last) = out.last_mut() {
                last.1.push(String::new());
            }
            continue;
        }
        if l.trim_start().starts_with("##") {
            continue;
        }
        if indent_of(l) == base {
            out.push((l.trim().to_string(), vec![]));
        } else {
            out.last_mut().expect("indented line without header").1.push(l.clone());
        }
    }
    out
}

fn parse_fn(head: &str, body: &[String]) -> FnSpec {
    // head: "a::Pool::try_get"
    let (src, path) = head.split_once("::").expect("fn needs alias::path");
    let mut f = FnSpec {
        src: src.to_string(),
        path: path.to_string(),
        ..Default::default()
    };
    for (h, sub) in groups(body) {
        let (word, rest) = match h.split_once(char::is_whitespace) {
            Some((w, r)) => (w.to_string(), r.trim().to_string()),
            None => (h.clone(), String::new()),
        };
        let (word, variants) = split_variant(&word);
        match word.as_str() {
            "as" => f.rename = Some(rest),
            "traitimpl" => f.traitimpl = Some(rest),
            "closure" => f.closure = Some(rest.trim().parse().expect("closure index")),
            "sig" => f.sig = Some(rest),
            "ctl" => f.ctl = true,
            "dropcall" => f.dropcalls.extend(rest.split_whitespace().map(|x| x.to_string())),
            "dropgeneric" => f.dropgenerics.extend(rest.split_whitespace().map(|x| x.to_string())),
            "local" => {
                let w: Vec<&str> = rest.split_whitespace().collect();
                f.locals.push((w[0].to_string(), w[1].parse().expect("local NAME ORD")));
            }
            "blocking" => f.blocking = true,
            "panics" => f.panics.extend(rest.split_whitespace().map(|x| x.to_string())),
            "closurecall" => {
                let (k, e) = rest.split_once(char::is_whitespace).expect("closurecall K EXPR");
                f.closurecalls.push((k.parse().expect("closure index"), e.trim().to_string()));
            }
            "param" => f.params.push(rest),
            "self" => f.selfkind = Some(rest),
            "returns" => f.ret_name = Some(rest),
            "poolpath" => f.poolpath = Some(rest),
            "attr" => f.attrs.push(rest),
            "props" => f.props = rest.split_whitespace().map(|s| s.to_string()).collect(),
            "retype" => {
                let (n, t) = rest.split_once(':').expect("retype needs type");
                f.retype.push((n.trim().to_string(), t.trim().to_string()));
            }
            "requires" => f.requires.extend(parse_clauses(&sub, variants)),
            "ensures" => f.ensures.extend(parse_clauses(&sub, variants)),
            "entry" => f.entry.push(GhostStmt { text: block_text(&sub), variants }),
            "before" => f.before.entry(rest).or_default().push(GhostStmt { text: block_text(&sub), variants }),
            "after" => f.after.entry(rest).or_default().push(GhostStmt { text: block_text(&sub), variants }),
            "loop" => {
                let n: usize = rest.parse().expect("loop ordinal");
                let ls = f.loops.entry(n).or_default();
                for (h2, sub2) in groups(&sub) {
                    let (w2, r2) = match h2.split_once(char::is_whitespace) {
                        Some((w, r)) => (w.to_string(), r.trim().to_string()),
                        None => (h2.clone(), String::new()),
                    };
                    let (w2, v2) = split_variant(&w2);
                    match w2.as_str() {
                        "invariant" => ls.invariant.extend(parse_clauses(&sub2, v2)),
                        "invariant_except_break" => ls.invariant_except_break.extend(parse_clauses(&sub2, v2)),
                        "ensures" => ls.ensures.extend(parse_clauses(&sub2, v2)),
                        "decreases" => ls.decreases = Some(r2),
                        "collects" => ls.collects = Some(r2),
                        "at" => ls.at = Some(r2.chars().filter(|c| !c.is_whitespace()).collect()),
                        "body" => ls.body.push(GhostStmt { text: block_text(&sub2), variants: v2 }),
                        "init" => ls.init.push(GhostStmt { text: block_text(&sub2), variants: v2 }),
                        _ => panic!("unknown loop sub-directive {w2}"),
                    }
                }
            }
            _ => panic!("unknown fn sub-directive `{word}` in fn {head}"),
        }
    }
    f
}

fn parse_struct(head: &str, body: &[String]) -> StructSpec {
    let (src, name) = head.split_once("::").expect("struct needs alias::name");
    let mut s = StructSpec {
        src: src.to_string(),
        name: name.to_string(),
        ..Default::default()
    };
    for (h, _sub) in groups(body) {
        let (word, rest) = match h.split_once(char::is_whitespace) {
            Some((w, r)) => (w.to_string(), r.trim().to_string()),
            None => (h.clone(), String::new()),
        };
        match word.as_str() {
            "drop" => s.drop_fields.extend(rest.split_whitespace().map(|x| x.to_string())),
            "ghost" => {
                // name: Type = init
                let (decl, init) = rest.split_once(" = ").expect("ghost field needs = init");
                let (n, t) = decl.split_once(':').expect("ghost field needs type");
                s.ghost_fields.push((n.trim().to_string(), t.trim().to_string(), init.trim().to_string()));
            }
            "retype" => {
                let (n, t) = rest.split_once(':').expect("retype needs type");
                s.retype.push((n.trim().to_string(), t.trim().to_string()));
            }
            "derive" => s.derive.extend(rest.split_whitespace().map(|x| x.to_string())),
            "as" => s.rename = Some(rest),
            _ => panic!("unknown struct sub-directive {word}"),
        }
    }
    s
}

pub fn parse_unit(text: &str) -> Unit {
    let mut u = Unit::default();
    let lines: Vec<String> = text.lines().map(|l| l.trim_end().to_string()).collect();
    let mut i = 0;
    while i < lines.len() {
        let l = &lines[i];
        if l.trim().is_empty() || l.starts_with('#') {
            i += 1;
            continue;
        }
        assert!(indent_of(l) == 0, "unexpected indentation at line {}: {}", i + 1, l);
        let mut j = i + 1;
        while j < lines.len() && (lines[j].trim().is_empty() || indent_of(&lines[j]) > 0) {
            j += 1;
        }
        let body: Vec<String> = lines[i + 1..j].to_vec();
        let (word, rest) = match l.split_once(char::is_whitespace) {
            Some((w, r)) => (w.to_string(), r.trim().to_string()),
            None => (l.clone(), String::new()),
        };
        let (word, variants) = split_variant(&word);
        let words: Vec<String> = rest.split_whitespace().map(|s| s.to_string()).collect();
        match word.as_str() {
            "unit" => u.name = rest,
            "include" => u.includes.push(rest),
            "source" => {
                u.sources.insert(words[0].clone(), words[1].clone());
            }
            "dropgeneric" => u.dropgeneric.extend(words),
            "tyrename" => u.tyrename.push((words[0].clone(), words[1].clone())),
            "assoc" => u.assoc.push((words[0].clone(), words[1].clone())),
            "erase" => u.erase.extend(words),
            "shared" => u.shared.extend(words),
            "poolpath" => u.poolpath.push((words[0].clone(), words[1..].join(" "))),
            "backref" => {
                let (ty, field) = words[0].split_once('.').expect("backref Type.field");
                u.backrefs.push(Backref {
                    ty: ty.to_string(),
                    field: field.to_string(),
                    param: words[1].clone(),
                    param_ty: words[2..].join(" "),
                });
            }
            "upgradelike" => u.upgradelike.extend(words),
            "futprod" => u.futprod.extend(words),
            "extasync" => u.extasync.extend(words),
            "callrename" => u.callrename.push((words[0].clone(), words[1].clone())),
            "localcall" => u.localcall.extend(words),
            "dropcall" => u.dropcall.extend(words),
            "puremethods" => u.puremethods.extend(words),
            "variants" => {}
            "unittypes" => u.unit_types.extend(words),
            "methodfn" => u.methodfn.push((words[0].clone(), words[1].clone())),
            "pathrename" => u.pathrename.push((words[0].clone(), words[1].clone())),
            "strlits" => u.strlits = true,
            "optionmap" => u.optionmap = true,
            "resultmap" => u.resultmap = true,
            "mutexlocals" => u.mutexlocals.extend(words),
            "poisonlocks" => u.poisonlocks = true,
            "blockingctx" => u.blockingctx = true,
            "ctxfns" => u.ctxfns.extend(words),
            "dropvalue" => u.dropvalue = Some(words[0].clone()),
            "heapupgrade" => u.heapupgrade = Some(words[0].clone()),
            "inlinecall" => u.inlinecall.extend(words),
            "constfn" => u.constfn.push((words[0].clone(), words[1].clone())),
            "argcall" => u.argcall.push((words[0].clone(), words[1].clone(), words[2].clone())),
            "methodval" => u.methodval.push((words[0].clone(), words[1].clone())),
            "poolcall" => u.poolcall.push((words[0].clone(), words[1].clone(), words[2].clone())),
            "lockinv" => u.lockinv.push((words[0].clone(), words[1..].join(" "))),
            "verbatim" => u.verbatim.push((variants, block_text(&body))),
            "struct" => u.structs.push(parse_struct(&rest, &body)),
            "enum" => u.enums.push(parse_struct(&rest, &body)),
            "fn" => u.fns.push(parse_fn(&rest, &body)),
            _ => panic!("unknown directive `{word}` at line {}", i + 1),
        }
        i = j;
    }
    u
}
