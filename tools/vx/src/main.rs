//! vx — mechanical extractor: /repo sources + overlay contracts → one Verus file per (unit, variant).
//!
//! usage: vx --repo /repo --verif /verif --unit contracts/um.vc --variant conc --out gen/um.conc.rs
//! exit codes: 0 ok, 2 lost anchor / unsupported construct / parse error (never an alarm)
mod elab;
mod inline;
mod emit;
mod spec;
mod ty;

use elab::{Elab, Env, Raii, RaiiKind, Tables};
use quote::ToTokens;
use spec::{FnSpec, Unit};
use std::collections::{BTreeMap, BTreeSet};
use syn::visit_mut::VisitMut;
use syn::*;

fn die(msg: &str) -> ! {
    eprintln!("vx: {}", msg);
    std::process::exit(2);
}

// ---------------------------------------------------------------- R8: cfg / attribute resolution
fn cfg_eval(meta: &Meta) -> Option<bool> {
    match meta {
        Meta::Path(p) => {
            let n = p.get_ident()?.to_string();
            Some(match n.as_str() {
                "unix" => true,
                "windows" => false,
                "test" => false,
                "debug_assertions" => true,
                _ => return None,
            })
        }
        Meta::NameValue(nv) => {
            let n = nv.path.get_ident()?.to_string();
            let v = match &nv.value {
                Expr::Lit(ExprLit { lit: Lit::Str(s), .. }) => s.value(),
                _ => return None,
            };
            Some(match n.as_str() {
                "target_arch" => v == "x86_64",
                "target_os" => v == "linux",
                "feature" => v != "verif_hooks" && v != "tracing",
                _ => return None,
            })
        }
        Meta::List(l) => {
            let n = l.path.get_ident()?.to_string();
            let inner: Vec<Meta> = l
                .parse_args_with(punctuated::Punctuated::<Meta, Token![,]>::parse_terminated)
                .ok()?
                .into_iter()
                .collect();
            match n.as_str() {
                "not" => Some(!cfg_eval(inner.first()?)?),
                "all" => {
                    let mut r = true;
                    for m in inner.iter() {
                        r &= cfg_eval(m)?;
                    }
                    Some(r)
                }
                "any" => {
                    let mut r = false;
                    for m in inner.iter() {
                        r |= cfg_eval(m)?;
                    }
                    Some(r)
                }
                _ => None,
            }
        }
    }
}

/// Some(true/false) if the attribute list carries a decidable #[cfg]; None if no cfg
fn attrs_cfg(attrs: &[Attribute]) -> Option<bool> {
    let mut res = None;
    for a in attrs {
        if a.path().is_ident("cfg") {
            if let Meta::List(l) = &a.meta {
                if let Ok(m) = l.parse_args::<Meta>() {
                    match cfg_eval(&m) {
                        Some(b) => res = Some(res.unwrap_or(true) && b),
                        None => die(&format!("unsupported construct: cfg predicate `{}`", m.to_token_stream())),
                    }
                }
            }
        }
    }
    res
}

struct CfgStrip;
impl VisitMut for CfgStrip {
    fn visit_block_mut(&mut self, b: &mut Block) {
        let mut out = vec![];
        for s in b.stmts.drain(..) {
            let keep = match &s {
                Stmt::Local(l) => attrs_cfg(&l.attrs).unwrap_or(true),
                Stmt::Expr(e, _) => attrs_cfg(expr_attrs(e)).unwrap_or(true),
                Stmt::Macro(m) => attrs_cfg(&m.attrs).unwrap_or(true),
                Stmt::Item(_) => true,
            };
            if keep {
                out.push(s);
            }
        }
        b.stmts = out;
        visit_mut::visit_block_mut(self, b);
    }
    fn visit_expr_struct_mut(&mut self, s: &mut ExprStruct) {
        let fields: Vec<FieldValue> = s.fields.iter().filter(|f| attrs_cfg(&f.attrs).unwrap_or(true)).cloned().collect();
        s.fields = fields.into_iter().collect();
        visit_mut::visit_expr_struct_mut(self, s);
    }
    fn visit_expr_match_mut(&mut self, m: &mut ExprMatch) {
        m.arms.retain(|a| attrs_cfg(&a.attrs).unwrap_or(true));
        visit_mut::visit_expr_match_mut(self, m);
    }
    fn visit_attribute_mut(&mut self, _a: &mut Attribute) {}
    fn visit_expr_mut(&mut self, e: &mut Expr) {
        clear_expr_attrs(e);
        visit_mut::visit_expr_mut(self, e);
    }
    fn visit_local_mut(&mut self, l: &mut Local) {
        l.attrs.clear();
        visit_mut::visit_local_mut(self, l);
    }
    fn visit_field_value_mut(&mut self, f: &mut FieldValue) {
        f.attrs.clear();
        visit_mut::visit_field_value_mut(self, f);
    }
    fn visit_arm_mut(&mut self, a: &mut Arm) {
        a.attrs.clear();
        visit_mut::visit_arm_mut(self, a);
    }
}

fn expr_attrs(e: &Expr) -> &[Attribute] {
    match e {
        Expr::Block(b) => &b.attrs,
        Expr::If(b) => &b.attrs,
        Expr::Match(b) => &b.attrs,
        Expr::MethodCall(b) => &b.attrs,
        Expr::Call(b) => &b.attrs,
        Expr::Assign(b) => &b.attrs,
        Expr::Binary(b) => &b.attrs,
        _ => &[],
    }
}

fn clear_expr_attrs(e: &mut Expr) {
    match e {
        Expr::Block(b) => b.attrs.clear(),
        Expr::If(b) => b.attrs.clear(),
        Expr::Match(b) => b.attrs.clear(),
        Expr::MethodCall(b) => b.attrs.clear(),
        Expr::Call(b) => b.attrs.clear(),
        Expr::Assign(b) => b.attrs.clear(),
        Expr::Binary(b) => b.attrs.clear(),
        Expr::Struct(b) => b.attrs.clear(),
        Expr::Closure(b) => b.attrs.clear(),
        Expr::Loop(b) => b.attrs.clear(),
        Expr::While(b) => b.attrs.clear(),
        Expr::ForLoop(b) => b.attrs.clear(),
        _ => {}
    }
}

// ---------------------------------------------------------------- locating items
pub struct FoundFn {
    pub sig: Signature,
    pub block: Block,
    pub impl_ty: Option<String>,
    pub impl_generics: Option<Generics>,
    pub impl_self_ty: Option<Type>,
    pub line_start: usize,
    pub line_end: usize,
}

fn type_last_ident(t: &Type) -> Option<String> {
    match t {
        Type::Path(p) => p.path.segments.last().map(|s| s.ident.to_string()),
        Type::Reference(r) => type_last_ident(&r.elem),
        _ => None,
    }
}

fn find_fn(file: &File, path: &str) -> Option<FoundFn> {
    use syn::spanned::Spanned;
    let path_owned = {
        // protect `::` inside `[..]`
        let mut out = String::new();
        let mut depth = 0;
        let cs: Vec<char> = path.chars().collect();
        let mut i = 0;
        while i < cs.len() {
            if cs[i] == '[' { depth += 1; }
            if cs[i] == ']' { depth -= 1; }
            if depth > 0 && cs[i] == ':' && i + 1 < cs.len() && cs[i + 1] == ':' {
                out.push(';');
                i += 2;
                continue;
            }
            out.push(cs[i]);
            i += 1;
        }
        out
    };
    let parts: Vec<&str> = path_owned.split("::").collect();
    let mut found: Vec<FoundFn> = vec![];
    fn walk(items: &[Item], parts: &[&str], found: &mut Vec<FoundFn>) {
        use syn::spanned::Spanned;
        for it in items {
            match it {
                Item::Fn(f) if parts.len() == 1 && f.sig.ident == parts[0] => {
                    if attrs_cfg(&f.attrs).unwrap_or(true) {
                        found.push(FoundFn {
                            sig: f.sig.clone(),
                            block: (*f.block).clone(),
                            impl_ty: None,
                            impl_generics: None,
                            impl_self_ty: None,
                            line_start: f.span().start().line,
                            line_end: f.span().end().line,
                        });
                    }
                }
                Item::Impl(im) if parts.len() >= 2 => {
                    if !attrs_cfg(&im.attrs).unwrap_or(true) {
                        continue;
                    }
                    let tyname = type_last_ident(&im.self_ty);
                    if parts[0].starts_with('[') {
                        // `[full::path::Type]`: match the impl's self type literally (disambiguates `A` from `dep::A`)
                        let want = parts[0].trim_start_matches('[').trim_end_matches(']').replace(';', "::");
                        let have = im.self_ty.to_token_stream().to_string().replace(' ', "");
                        if have != want {
                            continue;
                        }
                    } else {
                        let have = im.self_ty.to_token_stream().to_string().replace(' ', "");
                        // a bare name does not match a module-qualified self type
                        if tyname.as_deref() != Some(parts[0]) || have.contains("::") && !have.starts_with(parts[0]) {
                            continue;
                        }
                    }
                    // optional trait qualifier: Type::Trait::method
                    if parts.len() == 3 {
                        let tr = im.trait_.as_ref().map(|(_, p, _)| p.segments.last().unwrap().ident.to_string());
                        if tr.as_deref() != Some(parts[1]) {
                            continue;
                        }
                    }
                    let name = parts[parts.len() - 1];
                    for ii in im.items.iter() {
                        if let ImplItem::Fn(f) = ii {
                            if f.sig.ident == name && attrs_cfg(&f.attrs).unwrap_or(true) {
                                found.push(FoundFn {
                                    sig: f.sig.clone(),
                                    block: f.block.clone(),
                                    impl_ty: tyname.clone(),
                                    impl_generics: Some(im.generics.clone()),
                                    impl_self_ty: Some((*im.self_ty).clone()),
                                    line_start: f.span().start().line,
                                    line_end: f.span().end().line,
                                });
                            }
                        }
                    }
                }
                Item::Mod(m) => {
                    if let Some((_, items)) = &m.content {
                        walk(items, parts, found);
                    }
                }
                _ => {}
            }
        }
    }
    let _ = file.span();
    walk(&file.items, &parts, &mut found);
    if found.len() > 1 {
        die(&format!("lost anchor: fn `{}` is ambiguous ({} candidates)", path, found.len()));
    }
    found.pop()
}

fn find_struct<'f>(file: &'f File, name: &str) -> Option<&'f ItemStruct> {
    file.items.iter().find_map(|i| match i {
        Item::Struct(s) if s.ident == name && attrs_cfg(&s.attrs).unwrap_or(true) => Some(s),
        _ => None,
    })
}

fn find_enum<'f>(file: &'f File, name: &str) -> Option<&'f ItemEnum> {
    file.items.iter().find_map(|i| match i {
        Item::Enum(s) if s.ident == name && attrs_cfg(&s.attrs).unwrap_or(true) => Some(s),
        _ => None,
    })
}

// ---------------------------------------------------------------- main
fn main() {
    let args: Vec<String> = std::env::args().collect();
    let mut repo = "/repo".to_string();
    let mut verif = "/verif".to_string();
    let mut unit_path = String::new();
    let mut variant = "conc".to_string();
    let mut out = String::new();
    let mut vacuity = false;
    let mut vacuity_all = false;
    let mut i = 1;
    while i < args.len() {
        match args[i].as_str() {
            "--repo" => { repo = args[i + 1].clone(); i += 2; }
            "--verif" => { verif = args[i + 1].clone(); i += 2; }
            "--unit" => { unit_path = args[i + 1].clone(); i += 2; }
            "--variant" => { variant = args[i + 1].clone(); i += 2; }
            "--out" => { out = args[i + 1].clone(); i += 2; }
            "--vacuity" => { vacuity = true; i += 1; }
            "--vacuity-all" => { vacuity = true; vacuity_all = true; i += 1; }
            other => die(&format!("unknown argument {}", other)),
        }
    }
    let unit_file = if unit_path.starts_with('/') { unit_path.clone() } else { format!("{}/{}", verif, unit_path) };
    let text = std::fs::read_to_string(&unit_file).unwrap_or_else(|e| die(&format!("cannot read {}: {}", unit_file, e)));
    let u: Unit = spec::parse_unit(&text);

    // parse sources
    let mut files: BTreeMap<String, File> = BTreeMap::new();
    for (alias, rel) in u.sources.iter() {
        // sources of dependencies (cargo registry) may be named by absolute path or glob-free `~registry/<crate-dir>/..`
        let p = if rel.starts_with('/') { rel.clone() } else if let Some(r) = rel.strip_prefix("~registry/") { registry_path(r) } else { format!("{}/{}", repo, rel) };
        let src = std::fs::read_to_string(&p).unwrap_or_else(|e| die(&format!("lost anchor: cannot read {}: {}", p, e)));
        let f = syn::parse_file(&src).unwrap_or_else(|e| die(&format!("parse error in {}: {}", p, e)));
        files.insert(alias.clone(), f);
    }

    // ---------------------------------------------------------------- tables
    let mut t = Tables {
        internal_async: BTreeSet::new(),
        prim_fields: BTreeSet::new(),
        mutex_fields: BTreeSet::new(),
        drop_types: BTreeSet::new(),
        backparam_fns: BTreeMap::new(),
        mutref_params: BTreeMap::new(),
        fn_ret_head: BTreeMap::new(),
        field_types: BTreeMap::new(),
        ghost_structs: BTreeMap::new(),
        dropped_fields: BTreeMap::new(),
        unit_fns: BTreeSet::new(),
        arc_fields: BTreeSet::new(),
    };
    let mut struct_items: Vec<(ItemStruct, &spec::StructSpec)> = vec![];
    for ss in u.structs.iter() {
        let file = files.get(&ss.src).unwrap_or_else(|| die(&format!("unknown source alias {}", ss.src)));
        let st = find_struct(file, &ss.name).unwrap_or_else(|| die(&format!("lost anchor: struct {}::{}", ss.src, ss.name)));
        if let Fields::Named(nf) = &st.fields {
            for f in nf.named.iter() {
                if !attrs_cfg(&f.attrs).unwrap_or(true) {
                    continue;
                }
                let fname = f.ident.as_ref().unwrap().to_string();
                t.field_types.insert((ss.name.clone(), fname.clone()), f.ty.to_token_stream().to_string().replace(' ', ""));
                let tname = type_last_ident(&f.ty).unwrap_or_default();
                if tname == "Semaphore" || tname.starts_with("Atomic") {
                    t.prim_fields.insert(fname.clone());
                }
                if tname == "Mutex" || tname == "RwLock" {
                    t.mutex_fields.insert(fname.clone());
                }
                if tname == "Arc" {
                    t.arc_fields.insert(fname.clone());
                    // `Arc<Mutex<..>>` with `Arc` erased is a mutex field
                    if u.erase.contains(&"Arc".to_string()) {
                        if let Type::Path(tp) = &f.ty {
                            if let PathArguments::AngleBracketed(ab) = &tp.path.segments.last().unwrap().arguments {
                                if let Some(GenericArgument::Type(inner)) = ab.args.first() {
                                    let iname = type_last_ident(inner).unwrap_or_default();
                                    if iname == "Mutex" || iname == "RwLock" {
                                        t.mutex_fields.insert(fname.clone());
                                    }
                                }
                            }
                        }
                    }
                }
            }
        }
        t.dropped_fields.insert(ss.name.clone(), ss.drop_fields.clone());
        if !ss.ghost_fields.is_empty() {
            t.ghost_structs.insert(
                ss.name.clone(),
                ss.ghost_fields.iter().map(|(n, _, init)| (n.clone(), init.clone())).collect(),
            );
        }
        struct_items.push((st.clone(), ss));
    }
    let mut found_fns: Vec<(FoundFn, &FnSpec)> = vec![];
    // names that already mean something in this unit (functions under contract, functions of the models and of the overlay's
    // own text): a call to one of these is never inlined
    let mut known_names: BTreeSet<String> = BTreeSet::new();
    {
        let mut texts = vec![text.clone()];
        for inc in u.includes.iter() {
            let p = if inc.starts_with('/') { inc.clone() } else { format!("{}/{}", verif, inc) };
            if let Ok(t) = std::fs::read_to_string(&p) {
                texts.push(t);
            }
        }
        for tx in texts.iter() {
            let mut rest = tx.as_str();
            while let Some(pos) = rest.find("fn ") {
                let before_ok = pos == 0 || !rest.as_bytes()[pos - 1].is_ascii_alphanumeric() && rest.as_bytes()[pos - 1] != b'_';
                let tail = &rest[pos + 3..];
                let name: String = tail.chars().take_while(|c| c.is_alphanumeric() || *c == '_').collect();
                if before_ok && !name.is_empty() {
                    known_names.insert(name);
                }
                rest = tail;
            }
        }
        for fs in u.fns.iter() {
            known_names.insert(fs.path.rsplit("::").next().unwrap().to_string());
        }
        // every word of the overlay (directives such as `upgradelike Object::pool`, `extasync f`, `ctxfns f` name functions)
        for w in text.split(|c: char| !(c.is_alphanumeric() || c == '_')) {
            if !w.is_empty() {
                known_names.insert(w.to_string());
            }
        }
    }
    // the same for calls whose receiver type is known: `Type::name` of every function under contract, plus every word of the
    // unit-level directive lines (not of the contracts' clauses)
    let mut known_typed: BTreeSet<String> = BTreeSet::new();
    for fs in u.fns.iter() {
        let parts: Vec<&str> = fs.path.split("::").collect();
        if parts.len() >= 2 {
            known_typed.insert(format!("{}::{}", parts[0].trim_start_matches('[').trim_end_matches(']').rsplit(';').next().unwrap(), parts[parts.len() - 1]));
        }
    }
    // `Type::name` of every function the models and the overlay text define inside an `impl .. Type ..` block (a crude scan:
    // an indented `fn` belongs to the last `impl` header above it)
    {
        let mut texts = vec![text.clone()];
        for inc in u.includes.iter() {
            let p = if inc.starts_with('/') { inc.clone() } else { format!("{}/{}", verif, inc) };
            if let Ok(t) = std::fs::read_to_string(&p) {
                texts.push(t);
            }
        }
        for tx in texts.iter() {
            let mut cur: Option<String> = None;
            for line in tx.lines() {
                let t = line.trim_start();
                let indented = line.len() != t.len();
                let t2 = t.trim_start_matches("pub ").trim_start_matches("unsafe ");
                if t2.starts_with("impl") && (t2[4..].starts_with('<') || t2[4..].starts_with(' ')) {
                    // impl<..> [Trait for] Type<..>
                    let mut rest = &t2[4..];
                    if rest.starts_with('<') {
                        let mut depth = 0;
                        let mut end = 0;
                        for (i, c) in rest.char_indices() {
                            if c == '<' { depth += 1; }
                            if c == '>' { depth -= 1; if depth == 0 { end = i + 1; break; } }
                        }
                        rest = &rest[end..];
                    }
                    let rest = rest.trim();
                    let ty_part = match rest.find(" for ") { Some(i) => &rest[i + 5..], None => rest };
                    let ty_part = ty_part.trim().rsplit("::").next().unwrap_or("");
                    let name: String = ty_part.chars().take_while(|c| c.is_alphanumeric() || *c == '_').collect();
                    cur = if name.is_empty() { None } else { Some(name) };
                    continue;
                }
                if !indented && !t.is_empty() && !t.starts_with("//") && !t.starts_with('}') && !t.starts_with('#') {
                    cur = None;
                }
                if let (true, Some(ty)) = (indented, &cur) {
                    if let Some(pos) = t.find("fn ") {
                        let before_ok = pos == 0 || t[..pos].ends_with(' ');
                        let name: String = t[pos + 3..].chars().take_while(|c| c.is_alphanumeric() || *c == '_').collect();
                        if before_ok && !name.is_empty() && !t.starts_with("//") {
                            known_typed.insert(format!("{}::{}", ty, name));
                        }
                    }
                }
            }
        }
    }
    let mut directive_words: BTreeSet<String> = BTreeSet::new();
    for line in text.lines() {
        if line.starts_with(|c: char| c.is_alphabetic()) && !line.starts_with("fn ") && !line.starts_with("struct ") && !line.starts_with("enum ") {
            for w in line.split(|c: char| !(c.is_alphanumeric() || c == '_')) {
                if !w.is_empty() {
                    directive_words.insert(w.to_string());
                }
            }
        }
    }
    for fs in u.fns.iter() {
        let file = files.get(&fs.src).unwrap_or_else(|| die(&format!("unknown source alias {}", fs.src)));
        let mut ff = find_fn(file, &fs.path).unwrap_or_else(|| die(&format!("lost anchor: fn {}::{} not found", fs.src, fs.path)));
        // helper inlining: a call `self.h(..)` / `Self::h(..)` / `h(..)` to a function of the same file that nothing in this unit
        // knows (a helper introduced by an extract-method refactoring) is replaced by the helper's body
        DesugarLetElse.visit_block_mut(&mut ff.block);
        {
            let mut all_files: Vec<&File> = vec![file];
            for (a, f) in files.iter() {
                if *a != fs.src {
                    all_files.push(f);
                }
            }
            let mut inl = inline::Inliner { files: all_files, known: &known_names, known_typed: &known_typed, directive_words: &directive_words, field_types: &t.field_types, impl_ty: ff.impl_ty.clone(), depth: 0, counter: 0, notes: vec![] };
            inl.visit_block_mut(&mut ff.block);
            for n in inl.notes.iter() {
                eprintln!("vx: note: {}::{}: {}", fs.src, fs.path, n);
            }
        }
        // module-level `const NAME: T = E;` of the function's file that the body mentions (and nothing in the unit defines):
        // bound at the top of the body, `E` is extracted like any other expression
        {
            let mut used: BTreeSet<String> = BTreeSet::new();
            fn walk(ts: proc_macro2::TokenStream, out: &mut BTreeSet<String>) {
                for tt in ts {
                    match tt {
                        proc_macro2::TokenTree::Ident(i) => {
                            out.insert(i.to_string());
                        }
                        proc_macro2::TokenTree::Group(g) => walk(g.stream(), out),
                        _ => {}
                    }
                }
            }
            walk(ff.block.to_token_stream(), &mut used);
            let mut pre: Vec<Stmt> = vec![];
            for it in file.items.iter() {
                if let Item::Const(c) = it {
                    let n = c.ident.to_string();
                    if used.contains(&n) && !known_names.contains(&n) && attrs_cfg(&c.attrs).unwrap_or(true) {
                        let id = &c.ident;
                        let ty = &c.ty;
                        let e = &c.expr;
                        pre.push(parse_quote!(let #id: #ty = #e;));
                        eprintln!("vx: note: {}::{}: module constant `{}` bound in the body", fs.src, fs.path, n);
                    }
                }
            }
            if !pre.is_empty() {
                pre.extend(ff.block.stmts.drain(..));
                ff.block.stmts = pre;
            }
        }
        if let Some(k) = fs.closure {
            // lambda lifting: the k-th closure literal of the function (source order) becomes a function of its own; the
            // overlay supplies the signature (the captured variables become parameters)
            let cls = collect_closures(&ff.block);
            let cl = match cls.get(k) {
                Some(c) => c,
                None => {
                    // the closure is gone (its code may have moved into the function itself): nothing to lift; the enclosing
                    // function is extracted as it stands
                    eprintln!("vx: note: {}::{}: closure #{} no longer exists (lifted entry skipped)", fs.src, fs.path, k);
                    continue;
                }
            };
            let sig_txt = fs.sig.as_ref().unwrap_or_else(|| die("a lifted closure needs `sig`"));
            let sig: Signature = syn::parse_str(sig_txt).unwrap_or_else(|e| die(&format!("bad sig `{}`: {}", sig_txt, e)));
            use syn::spanned::Spanned;
            ff.line_start = cl.span().start().line;
            ff.line_end = cl.span().end().line;
            // `local NAME ORD` on a lifted closure: a captured variable the signature names; if the enclosing function calls it
            // differently now (its ORD-th `let`), the closure body is renamed to the signature's name
            let parent_lets = collect_lets(&ff.block);
            let mut body_block = match &*cl.body {
                Expr::Block(b) => b.block.clone(),
                other => Block { brace_token: Default::default(), stmts: vec![Stmt::Expr(other.clone(), None)] },
            };
            for (name, ord) in fs.locals.iter() {
                if !parent_lets.contains(name) {
                    if let Some(actual) = parent_lets.get(*ord) {
                        let mut rn = RenameIdent { from: actual.clone(), to: name.clone() };
                        rn.visit_block_mut(&mut body_block);
                    }
                }
            }
            ff.block = body_block;
            ff.sig = sig;
        }
        if let (None, Some(sig_txt)) = (fs.closure, fs.sig.as_ref()) {
            // `sig` on an ordinary function: the overlay restates the signature (e.g. `F: Future` + `F::Output` as one type
            // parameter); the body is the function's own
            let sig: Signature = syn::parse_str(sig_txt).unwrap_or_else(|e| die(&format!("bad sig `{}`: {}", sig_txt, e)));
            if sig.ident != ff.sig.ident || sig.inputs.len() != ff.sig.inputs.len() || sig.asyncness.is_some() != ff.sig.asyncness.is_some() {
                die(&format!("lost anchor: `sig` of {}::{} no longer matches the function (name / arity / async)", fs.src, fs.path));
            }
            ff.sig = sig;
        }
        let name = ff.sig.ident.to_string();
        if ff.sig.asyncness.is_some() {
            t.internal_async.insert(name.clone());
        }
        if let ReturnType::Type(_, rt) = &ff.sig.output {
            if let Some(h) = type_last_ident(rt) {
                if (h == "Result" || h == "Option") && ff.sig.asyncness.is_none() {
                    t.fn_ret_head.insert(name.clone(), h);
                }
            }
        }
        if name == "drop" {
            if let Some(ty) = &ff.impl_ty {
                t.drop_types.insert(ty.clone());
            }
        }
        t.unit_fns.insert(fs.path.clone());
        // parameters retyped to `&mut T`
        {
            let mut pos = vec![];
            for (i, inp) in ff.sig.inputs.iter().filter(|a| matches!(a, FnArg::Typed(_))).enumerate() {
                if let FnArg::Typed(pt) = inp {
                    if let Pat::Ident(pi) = &*pt.pat {
                        if fs.retype.iter().any(|(n, t)| pi.ident == n && t.trim_start().starts_with("&mut")) {
                            pos.push(i);
                        }
                    }
                }
            }
            if !pos.is_empty() {
                t.mutref_params.insert(name.clone(), pos);
            }
        }
        found_fns.push((ff, fs));
    }
    // which fns of back-reference types take the pool explicitly
    for (ff, fs) in found_fns.iter() {
        if let Some(ty) = &ff.impl_ty {
            if let Some(br) = u.backrefs.iter().find(|b| b.ty == *ty) {
                let body = ff.block.to_token_stream().to_string();
                let mentions = body.contains(&format!("self . {}", br.field)) || body.contains(&format!("this . {}", br.field));
                let upg = u.upgradelike.iter().any(|f| body.contains(&f.replace("::", " :: ")));
                let by_value = match ff.sig.inputs.first() {
                    Some(FnArg::Receiver(r)) => r.reference.is_none(),
                    Some(FnArg::Typed(pt)) => {
                        // `this: Self`
                        matches!(&*pt.ty, Type::Path(p) if p.path.is_ident("Self"))
                    }
                    None => false,
                };
                if mentions || by_value || upg {
                    t.backparam_fns.insert(format!("{}::{}", ty, ff.sig.ident), br.param.clone());
                }
                let _ = fs;
            }
        }
    }

    // ---------------------------------------------------------------- emit
    let mut em = emit::Emitter::new(&u, &variant, &verif);
    em.vacuity = vacuity;
    em.vacuity_all = vacuity_all;
    for (st, ss) in struct_items.iter() {
        em.add_struct(st, ss);
    }
    for es in u.enums.iter() {
        let file = files.get(&es.src).unwrap_or_else(|| die(&format!("unknown source alias {}", es.src)));
        let en = find_enum(file, &es.name).unwrap_or_else(|| die(&format!("lost anchor: enum {}::{}", es.src, es.name)));
        em.add_enum(en, es);
    }

    let mut all_notes: Vec<String> = vec![];
    for (ff, fs) in found_fns.into_iter() {
        let mut block = ff.block.clone();
        CfgStrip.visit_block_mut(&mut block);
        if !fs.closurecalls.is_empty() {
            let mut rep = ReplaceClosures { k: 0, with: &fs.closurecalls, hit: 0 };
            rep.visit_block_mut(&mut block);
            if rep.hit != fs.closurecalls.len() {
                all_notes.push(format!("{}::{}: closurecall matched {} of {} closures", fs.src, fs.path, rep.hit, fs.closurecalls.len()));
            }
        }

        // pool path
        let mut pool: Option<Expr> = None;
        let mut backparam: Option<(String, String)> = None;
        if let Some(ty) = &ff.impl_ty {
            if let Some((_, p)) = u.poolpath.iter().find(|(a, _)| a == ty) {
                pool = Some(syn::parse_str(p).unwrap_or_else(|_| die("bad poolpath expr")));
            }
            if let Some(br) = u.backrefs.iter().find(|b| b.ty == *ty) {
                if t.backparam_fns.contains_key(&format!("{}::{}", ty, ff.sig.ident)) {
                    backparam = Some((br.field.clone(), br.param.clone()));
                    pool = Some(syn::parse_str(&br.param).unwrap());
                }
            }
        }
        if let Some(p) = &fs.poolpath {
            pool = if p == "none" { None } else { Some(syn::parse_str(p).unwrap_or_else(|_| die("bad poolpath expr"))) };
        }
        let is_async = ff.sig.asyncness.is_some() || fs.ctl;
        // locals named by the overlay: by name, else by the ordinal of their `let` (robust against a rename)
        let local_ren: Vec<(String, String)> = {
            let lets = collect_lets(&ff.block);
            let mut ren = vec![];
            // (for a lifted closure the `local`s are captured variables: the closure body was renamed instead)
            for (name, ord) in fs.locals.iter().filter(|_| fs.closure.is_none()) {
                if !lets.contains(name) {
                    match lets.get(*ord) {
                        Some(actual) => ren.push((name.clone(), actual.clone())),
                        None => die(&format!("lost anchor: local `{}` (let #{}) of {}::{}", name, ord, fs.src, fs.path)),
                    }
                }
            }
            ren
        };

        let mut el = Elab {
            u: &u,
            spec: fs,
            t: &t,
            impl_ty: ff.impl_ty.clone(),
            pool,
            ctl: is_async,
            ret_option: matches!(&ff.sig.output, ReturnType::Type(_, t) if type_last_ident(t).as_deref() == Some("Option")),
            env: Env::default(),
            counters: BTreeMap::new(),
            loop_ctr: 0,
            cur_loop: 0,
            unwinding: false,
            local_ren: local_ren.clone(),
            used_loops: Default::default(),
            all_loop_headers: elab::collect_loop_headers(&ff.block),
            brk_ctr: 0,
            used_keys: BTreeSet::new(),
            notes: vec![],
            errors: vec![],
            pending_locks: vec![],
            pending_raii: vec![],
            block_moved: None,
            hoisted: vec![],
            brk_stack: vec![],
            self_rename: None,
            backparam: backparam.clone(),
            loop_depth_raii: vec![],
            cur_key: String::new(),
        };

        // ---- signature
        let mut sig = ff.sig.clone();
        sig.asyncness = None;
        sig.constness = None;
        let rw = ty::TyRw { u: &u, in_unit_ty: false };
        rw.rewrite_generics(&mut sig.generics);
        if !fs.dropgenerics.is_empty() {
            // `dropgeneric T` of this function: the parameter of type T was retyped to a concrete type
            let keep: Vec<GenericParam> = sig.generics.params.iter().filter(|p| !matches!(p, GenericParam::Type(tp) if fs.dropgenerics.contains(&tp.ident.to_string()))).cloned().collect();
            sig.generics.params = keep.into_iter().collect();
            if sig.generics.params.is_empty() {
                sig.generics.lt_token = None;
                sig.generics.gt_token = None;
            }
            if let Some(wc) = &mut sig.generics.where_clause {
                let preds: Vec<WherePredicate> = wc.predicates.iter().filter(|p| !fs.dropgenerics.iter().any(|g| p.to_token_stream().to_string().split(|c: char| !(c.is_alphanumeric() || c == '_')).any(|w| w == g))).cloned().collect();
                wc.predicates = preds.into_iter().collect();
            }
            if sig.generics.where_clause.as_ref().map(|w| w.predicates.is_empty()).unwrap_or(false) {
                sig.generics.where_clause = None;
            }
        }
        let mut prologue: Vec<Stmt> = vec![];
        let mut pre_raii: Vec<Raii> = vec![];
        let mut new_inputs: Vec<FnArg> = vec![];
        let shared = ff.impl_ty.as_ref().map(|t| u.shared.contains(t)).unwrap_or(false);
        for inp in sig.inputs.iter() {
            match inp {
                FnArg::Receiver(r) => {
                    if r.reference.is_some() {
                        let want_mut = match fs.selfkind.as_deref() {
                            Some("&") => false,
                            Some("&mut") => true,
                            _ => shared || r.mutability.is_some(),
                        };
                        if want_mut {
                            new_inputs.push(parse_quote!(&mut self));
                        } else {
                            new_inputs.push(parse_quote!(&self));
                        }
                    } else {
                        new_inputs.push(parse_quote!(self));
                        if r.mutability.is_some() {
                            prologue.push(parse_quote!(let mut self_ = self;));
                            el.self_rename = Some(Ident::new("self_", proc_macro2::Span::call_site()));
                        }
                        // by-value self of a type with Drop is an RAII local
                        if let (Some(ty), Some((_, param))) = (&ff.impl_ty, &backparam) {
                            if t.drop_types.contains(ty) {
                                let p: Expr = syn::parse_str(param).unwrap();
                                let nm = if r.mutability.is_some() { "self_" } else { "self" };
                                pre_raii.push(Raii { name: nm.to_string(), kind: RaiiKind::Backref { pool: parse_quote!(*#p) }, depth: 0 });
                            }
                        }
                    }
                }
                FnArg::Typed(pt) => {
                    let mut pt = pt.clone();
                    pt.attrs.clear();
                    let mut tyv = (*pt.ty).clone();
                    let mut rw2 = ty::TyRw { u: &u, in_unit_ty: false };
                    rw2.visit_type_mut(&mut tyv);
                    if let Pat::Ident(pi) = &*pt.pat {
                        if let Some((_, t)) = fs.retype.iter().find(|(n, _)| pi.ident == n) {
                            tyv = syn::parse_str(t).unwrap_or_else(|_| die("bad retype type"));
                        }
                    }
                    let is_fut = matches!(&tyv, Type::Path(p) if p.path.segments.last().map(|s| s.ident == "ExtFut").unwrap_or(false));
                    pt.ty = Box::new(tyv.clone());
                    // `_: T` parameters are rejected by Verus
                    if let Pat::Wild(_) = &*pt.pat {
                        let id = Ident::new(&format!("_p{}", new_inputs.len()), proc_macro2::Span::call_site());
                        pt.pat = Box::new(parse_quote!(#id));
                    }
                    // `mut x: T` → `x: T` + `let mut x = x;`
                    if let Pat::Ident(pi) = &mut *pt.pat {
                        let name = pi.ident.clone();
                        if pi.mutability.is_some() {
                            pi.mutability = None;
                            prologue.push(parse_quote!(let mut #name = #name;));
                        }
                        if is_fut {
                            pre_raii.push(Raii { name: name.to_string(), kind: RaiiKind::Fut, depth: 0 });
                        }
                        // by-value `this: Self` of a type with Drop
                        let is_self_ty = matches!(&tyv, Type::Path(p) if p.path.is_ident("Self"));
                        if is_self_ty {
                            if let (Some(ty), Some((_, param))) = (&ff.impl_ty, &backparam) {
                                if t.drop_types.contains(ty) {
                                    let p: Expr = syn::parse_str(param).unwrap();
                                    pre_raii.push(Raii { name: name.to_string(), kind: RaiiKind::Backref { pool: parse_quote!(*#p) }, depth: 0 });
                                }
                            }
                        }
                    }
                    new_inputs.push(FnArg::Typed(pt));
                }
            }
        }
        // extra params
        let mut have_param_names: BTreeSet<String> = BTreeSet::new();
        for p in fs.params.iter() {
            let a: FnArg = syn::parse_str(p).unwrap_or_else(|_| die(&format!("bad param `{}`", p)));
            if let FnArg::Typed(pt) = &a {
                if let Pat::Ident(pi) = &*pt.pat {
                    have_param_names.insert(pi.ident.to_string());
                }
            }
            new_inputs.push(a);
        }
        if let Some((_, param)) = &backparam {
            if !have_param_names.contains(param) {
                let br = u.backrefs.iter().find(|b| Some(&b.ty) == ff.impl_ty.as_ref()).unwrap();
                let a: FnArg = syn::parse_str(&format!("{}: &mut {}", br.param, br.param_ty)).unwrap_or_else(|_| die("bad backref param type"));
                new_inputs.push(a);
            }
        }
        sig.inputs = new_inputs.into_iter().collect();
        // custom drop overrides
        for r in pre_raii.iter_mut() {
            if let Some(st) = fs.attrs.iter().find_map(|a| a.strip_prefix(&format!("dropexpr {} => ", r.name))) {
                r.kind = RaiiKind::Custom { stmt: st.to_string() };
            }
        }
        // return type
        let ret_ty: Type = match &sig.output {
            ReturnType::Default => parse_quote!(()),
            ReturnType::Type(_, t) => {
                let mut tv = (**t).clone();
                let mut rw2 = ty::TyRw { u: &u, in_unit_ty: false };
                rw2.visit_type_mut(&mut tv);
                tv
            }
        };
        let ret_ty: Type = if is_async { parse_quote!(Ctl<#ret_ty>) } else { ret_ty };
        let unit_ret = matches!(&ret_ty, Type::Tuple(t) if t.elems.is_empty());
        sig.output = if unit_ret { ReturnType::Default } else { ReturnType::Type(Default::default(), Box::new(ret_ty.clone())) };

        // ---- body
        // the function body is a scope; its tail value is the return value
        let has_tail = matches!(block.stmts.last(), Some(Stmt::Expr(_, None)));
        let mut body = el.fold_block_scoped(block, pre_raii);
        if is_async {
            // wrap the normal-exit value
            if has_tail && !elab::block_diverges(&body) {
                if let Some(Stmt::Expr(e, None)) = body.stmts.pop() {
                    body.stmts.push(Stmt::Expr(parse_quote!(Ctl::Done(#e)), None));
                }
            } else if !elab::block_diverges(&body) {
                body.stmts.push(Stmt::Expr(parse_quote!(Ctl::Done(())), None));
            }
        }
        let mut stmts = prologue;
        stmts.append(&mut body.stmts);
        body.stmts = stmts;

        if !el.errors.is_empty() {
            for e in el.errors.iter() {
                eprintln!("vx: {}::{}: {}", fs.src, fs.path, e);
            }
            std::process::exit(2);
        }
        // anchors of the overlay that matched nothing
        for k in fs.before.keys() {
            if !el.used_keys.contains(&format!("before:{}", k)) {
                all_notes.push(format!("{}::{}: ghost anchor `before {}` matched no operation (skipped)", fs.src, fs.path, k));
            }
        }
        for k in fs.after.keys() {
            if !el.used_keys.contains(&format!("after:{}", k)) {
                all_notes.push(format!("{}::{}: ghost anchor `after {}` matched no operation (skipped)", fs.src, fs.path, k));
            }
        }
        for n in el.notes.iter() {
            all_notes.push(format!("{}::{}: {}", fs.src, fs.path, n));
        }
        for k in fs.loops.keys() {
            if !el.used_loops.contains(k) {
                all_notes.push(format!("{}::{}: loop contract #{} matched no loop (skipped)", fs.src, fs.path, k));
            }
        }
        if std::env::var("VX_LIST_LETS").is_ok() {
            // developer aid: which `let`-bound locals does the overlay of this function mention?
            let lets = collect_lets(&ff.block);
            let mut texts: Vec<String> = vec![];
            for c in fs.requires.iter().chain(fs.ensures.iter()) { texts.push(c.text.clone()); }
            for g in fs.before.values().chain(fs.after.values()).flatten().chain(fs.entry.iter()) { texts.push(g.text.clone()); }
            for l in fs.loops.values() {
                for c in l.invariant.iter().chain(l.invariant_except_break.iter()).chain(l.ensures.iter()) { texts.push(c.text.clone()); }
                for g in l.body.iter().chain(l.init.iter()) { texts.push(g.text.clone()); }
                if let Some(d) = &l.decreases { texts.push(d.clone()); }
            }
            for k in fs.before.keys().chain(fs.after.keys()) { texts.push(k.clone()); }
            let all = texts.join("\n");
            // identifiers not preceded by `.` (field accesses and method names do not count)
            let mut words: BTreeSet<String> = BTreeSet::new();
            {
                let cs: Vec<char> = all.chars().collect();
                let mut i = 0;
                while i < cs.len() {
                    if cs[i].is_alphabetic() || cs[i] == '_' {
                        let st = i;
                        while i < cs.len() && (cs[i].is_alphanumeric() || cs[i] == '_') { i += 1; }
                        if !(st > 0 && cs[st - 1] == '.') { words.insert(cs[st..i].iter().collect()); }
                    } else { i += 1; }
                }
            }
            for (i, n) in lets.iter().enumerate() {
                if words.contains(n) && !fs.locals.iter().any(|(a, _)| a == n) {
                    eprintln!("LETS {}::{} closure={:?}: local {} {}", fs.src, fs.path, fs.closure, n, i);
                }
            }
        }
        for (o, a) in local_ren.iter() {
            all_notes.push(format!("{}::{}: local `{}` is called `{}` in the source now", fs.src, fs.path, o, a));
        }
        emit::LOCAL_RENAMES.with(|r| *r.borrow_mut() = local_ren.clone());
        let keys: Vec<String> = el.counters.iter().map(|(k, n)| format!("{}x{}", k, n)).collect();
        let poolstr = el.pool.as_ref().map(|p| elab::expr_to_string(p).replace(" . ", ".")).unwrap_or_default();
        em.add_fn(&ff, fs, sig, body, keys, poolstr);
    }

    let (text, map) = em.finish(&all_notes);
    if out.is_empty() {
        print!("{}", text);
    } else {
        std::fs::write(&out, text).unwrap_or_else(|e| die(&format!("cannot write {}: {}", out, e)));
        std::fs::write(format!("{}.map.json", out), map).unwrap();
    }
    for n in all_notes.iter() {
        eprintln!("vx: note: {}", n);
    }
}

pub fn type_last_ident_pub(t: &Type) -> Option<String> {
    type_last_ident(t)
}

pub fn attrs_cfg_pub(attrs: &[Attribute]) -> bool {
    attrs_cfg(attrs).unwrap_or(true)
}

pub fn die_pub(msg: &str) -> ! {
    die(msg)
}

/// `~registry/tokio-postgres-0.7.13/src/config.rs` → the file under ~/.cargo/registry/src/<index>/
fn registry_path(rel: &str) -> String {
    let home = std::env::var("CARGO_HOME").unwrap_or_else(|_| format!("{}/.cargo", std::env::var("HOME").unwrap_or_default()));
    let base = format!("{}/registry/src", home);
    if let Ok(rd) = std::fs::read_dir(&base) {
        for e in rd.flatten() {
            let p = format!("{}/{}", e.path().display(), rel);
            if std::path::Path::new(&p).exists() {
                return p;
            }
        }
    }
    format!("{}/{}", base, rel)
}


/// closure literals of a block in source order (outer before inner)
fn collect_closures(b: &Block) -> Vec<ExprClosure> {
    struct V(Vec<ExprClosure>);
    impl<'ast> syn::visit::Visit<'ast> for V {
        fn visit_expr_closure(&mut self, c: &'ast ExprClosure) {
            self.0.push(c.clone());
            syn::visit::visit_expr_closure(self, c);
        }
    }
    let mut v = V(vec![]);
    syn::visit::Visit::visit_block(&mut v, b);
    v.0
}

/// `closurecall K EXPR`: the K-th closure literal is replaced by `__vx_raw!(EXPR)` (EXPR is emitted as written)
struct ReplaceClosures<'a> {
    k: usize,
    with: &'a [(usize, String)],
    hit: usize,
}
impl<'a> VisitMut for ReplaceClosures<'a> {
    fn visit_expr_mut(&mut self, e: &mut Expr) {
        if let Expr::Closure(_) = e {
            let idx = self.k;
            self.k += 1;
            if let Some((_, txt)) = self.with.iter().find(|(i, _)| *i == idx) {
                let raw: Expr = syn::parse_str(txt).unwrap_or_else(|_| die(&format!("bad closurecall expression `{}`", txt)));
                *e = parse_quote!(__vx_raw!(#raw));
                self.hit += 1;
                return;
            }
        }
        syn::visit_mut::visit_expr_mut(self, e);
    }
}


/// names bound by `let [mut] IDENT [: T] = ..` in a block, in source order
fn collect_lets(b: &Block) -> Vec<String> {
    struct V(Vec<String>);
    impl<'ast> syn::visit::Visit<'ast> for V {
        fn visit_local(&mut self, l: &'ast Local) {
            let p = match &l.pat {
                Pat::Type(pt) => &*pt.pat,
                other => other,
            };
            if let Pat::Ident(pi) = p {
                self.0.push(pi.ident.to_string());
            }
            syn::visit::visit_local(self, l);
        }
    }
    let mut v = V(vec![]);
    syn::visit::Visit::visit_block(&mut v, b);
    v.0
}


/// rename every use of the identifier `from` (expressions and patterns) to `to`
struct RenameIdent {
    from: String,
    to: String,
}
impl VisitMut for RenameIdent {
    fn visit_ident_mut(&mut self, i: &mut Ident) {
        if *i == self.from {
            *i = Ident::new(&self.to, i.span());
        }
    }
}


/// `let PAT = E else { D }; REST`  =>  `if let PAT = E { REST } else { D }` (the rest of the block moves into the `if let`;
/// D diverges, so values and types are unchanged). All the extractor's `if let` rules then apply to `let .. else` as well.
pub struct DesugarLetElse;
impl VisitMut for DesugarLetElse {
    fn visit_block_mut(&mut self, b: &mut Block) {
        let pos = b.stmts.iter().position(|s| matches!(s, Stmt::Local(l) if l.init.as_ref().map(|i| i.diverge.is_some()).unwrap_or(false)));
        if let Some(i) = pos {
            let rest: Vec<Stmt> = b.stmts.split_off(i + 1);
            let l = match b.stmts.pop() {
                Some(Stmt::Local(l)) => l,
                _ => unreachable!(),
            };
            let init = l.init.unwrap();
            let pat = l.pat;
            let e = init.expr;
            let (_, d) = init.diverge.unwrap();
            let has_tail = matches!(rest.last(), Some(Stmt::Expr(_, None)));
            let ife: Expr = parse_quote!(if let #pat = #e { #(#rest)* } else #d);
            b.stmts.push(Stmt::Expr(ife, if has_tail { None } else { Some(Default::default()) }));
        }
        syn::visit_mut::visit_block_mut(self, b);
    }
}


