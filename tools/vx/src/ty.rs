//! Type rewriting (rules R1 erase, R2 rename, R6 lifetimes, futures → ExtFut).
use crate::spec::Unit;
use syn::visit_mut::{self, VisitMut};
use syn::*;

pub struct TyRw<'a> {
    pub u: &'a Unit,
    pub in_unit_ty: bool,
}

fn path_is_ident(p: &Path, s: &str) -> bool {
    p.segments.len() == 1 && p.segments[0].ident == s
}

impl<'a> TyRw<'a> {
    fn dropped(&self, id: &Ident) -> bool {
        self.u.dropgeneric.iter().any(|g| id == g)
    }
    fn rename(&self, id: &Ident) -> Option<Ident> {
        self.u
            .tyrename
            .iter()
            .find(|(a, _)| id == a)
            .map(|(_, b)| Ident::new(b, id.span()))
    }
    fn type_mentions_dropped(&self, t: &Type) -> bool {
        if let Type::Path(tp) = t {
            if tp.qself.is_none() && tp.path.segments.len() == 1 {
                let id = &tp.path.segments[0].ident;
                if self.dropped(id) {
                    return true;
                }
            }
        }
        false
    }

    pub fn rewrite_generics(&self, g: &mut Generics) {
        let mut params = punctuated::Punctuated::new();
        for p in g.params.iter() {
            match p {
                GenericParam::Lifetime(_) => {}
                GenericParam::Type(tp) if self.dropped(&tp.ident) => {}
                GenericParam::Type(tp) => {
                    let mut tp = tp.clone();
                    tp.bounds = tp
                        .bounds
                        .iter()
                        .filter(|b| !bound_is_lifetime(b))
                        .cloned()
                        .collect();
                    for b in tp.bounds.iter_mut() {
                        self.clone_visit_bound(b);
                    }
                    tp.default = None;
                    params.push(GenericParam::Type(tp));
                }
                other => params.push(other.clone()),
            }
        }
        g.params = params;
        if g.params.is_empty() {
            g.lt_token = None;
            g.gt_token = None;
        }
        if let Some(wc) = &mut g.where_clause {
            let mut preds = punctuated::Punctuated::new();
            for p in wc.predicates.iter() {
                match p {
                    WherePredicate::Type(pt) => {
                        // a predicate that mentions a dropped generic anywhere (bounded type or bounds) goes away with it
                        let toks: Vec<String> = quote::ToTokens::to_token_stream(pt).into_iter().flat_map(flatten_tokens).collect();
                        let mentions = toks.iter().any(|t| self.u.dropgeneric.iter().any(|g| g == t));
                        if !mentions {
                            let mut pt = pt.clone();
                            let mut me = TyRw { u: self.u, in_unit_ty: false };
                            me.visit_type_mut(&mut pt.bounded_ty);
                            for b in pt.bounds.iter_mut() {
                                me.clone_visit_bound(b);
                            }
                            preds.push(WherePredicate::Type(pt));
                        }
                    }
                    _ => {}
                }
            }
            wc.predicates = preds;
        }
        if g.where_clause.as_ref().map(|w| w.predicates.is_empty()).unwrap_or(false) {
            g.where_clause = None;
        }
    }

    fn clone_visit_bound(&self, b: &mut TypeParamBound) {
        let mut me = TyRw { u: self.u, in_unit_ty: false };
        me.visit_type_param_bound_mut(b);
    }
}

fn flatten_tokens(t: proc_macro2::TokenTree) -> Vec<String> {
    match t {
        proc_macro2::TokenTree::Group(g) => g.stream().into_iter().flat_map(flatten_tokens).collect(),
        proc_macro2::TokenTree::Ident(i) => vec![i.to_string()],
        _ => vec![],
    }
}

fn bound_is_lifetime(b: &TypeParamBound) -> bool {
    matches!(b, TypeParamBound::Lifetime(_))
}

impl<'a> VisitMut for TyRw<'a> {
    fn visit_type_mut(&mut self, t: &mut Type) {
        // impl Future<Output = X> (+ Send) → ExtFut<X>
        if let Type::ImplTrait(it) = t {
            for b in it.bounds.iter() {
                if let TypeParamBound::Trait(tb) = b {
                    let last = tb.path.segments.last().unwrap();
                    if last.ident == "Future" {
                        if let PathArguments::AngleBracketed(ab) = &last.arguments {
                            for a in ab.args.iter() {
                                if let GenericArgument::AssocType(at) = a {
                                    if at.ident == "Output" {
                                        let mut inner = at.ty.clone();
                                        self.visit_type_mut(&mut inner);
                                        *t = parse_quote!(ExtFut<#inner>);
                                        return;
                                    }
                                }
                            }
                        }
                    }
                }
            }
        }
        // references: strip lifetimes
        if let Type::Reference(r) = t {
            r.lifetime = None;
        }
        // M::Type, <M as Manager>::Type
        if let Type::Path(tp) = t {
            let key = {
                let segs: Vec<String> = tp.path.segments.iter().map(|s| s.ident.to_string()).collect();
                if let Some(q) = &tp.qself {
                    if let Type::Path(qp) = &*q.ty {
                        let qn = qp.path.segments.last().unwrap().ident.to_string();
                        format!("{}::{}", qn, segs.last().unwrap())
                    } else {
                        segs.join("::")
                    }
                } else {
                    segs.join("::")
                }
            };
            if let Some((_, to)) = self.u.assoc.iter().find(|(a, _)| *a == key) {
                *t = syn::parse_str::<Type>(to).expect("assoc target type");
                return;
            }
        }
        // erase wrappers: Arc<T> → T
        if let Type::Path(tp) = t {
            if tp.qself.is_none() {
                let last = tp.path.segments.last().unwrap();
                if self.u.erase.iter().any(|e| last.ident == e) {
                    if let PathArguments::AngleBracketed(ab) = &last.arguments {
                        if let Some(GenericArgument::Type(inner)) = ab.args.first() {
                            let mut inner = inner.clone();
                            self.visit_type_mut(&mut inner);
                            *t = inner;
                            return;
                        }
                    }
                }
            }
        }
        // whole-path renames (`tokio_postgres::Config` → `PgConfig`)
        if let Type::Path(tp) = t {
            if tp.qself.is_none() {
                let full: Vec<String> = tp.path.segments.iter().map(|s| s.ident.to_string()).collect();
                let full = full.join("::");
                if let Some((_, to)) = self.u.pathrename.iter().find(|(a, _)| *a == full) {
                    let id = Ident::new(to, proc_macro2::Span::call_site());
                    // keep the generic arguments of the last segment (rewritten)
                    let mut args = tp.path.segments.last().unwrap().arguments.clone();
                    self.visit_path_arguments_mut(&mut args);
                    *t = parse_quote!(#id #args);
                    return;
                }
            }
        }
        // module-qualified type paths (`hooks::Hooks`, `std::time::Duration`): keep the type name
        if let Type::Path(tp) = t {
            if tp.qself.is_none() && tp.path.segments.len() > 1 {
                let keep_from = tp
                    .path
                    .segments
                    .iter()
                    .position(|s| s.ident.to_string().chars().next().map(|c| c.is_uppercase()).unwrap_or(false))
                    .unwrap_or(0);
                if keep_from > 0 {
                    let segs: Vec<PathSegment> = tp.path.segments.iter().skip(keep_from).cloned().collect();
                    tp.path.segments = segs.into_iter().collect();
                    tp.path.leading_colon = None;
                }
            }
        }
        visit_mut::visit_type_mut(self, t);
        // rename single-ident types (after recursion)
        if let Type::Path(tp) = t {
            if tp.qself.is_none() {
                if let Some(last) = tp.path.segments.last_mut() {
                    if let Some(n) = self.rename(&last.ident) {
                        last.ident = n;
                    }
                }
            }
        }
    }

    fn visit_path_segment_mut(&mut self, seg: &mut PathSegment) {
        let name = seg.ident.to_string();
        let is_unit_ty = self.u.structs.iter().any(|s| s.name == name) || self.u.enums.iter().any(|s| s.name == name) || self.u.unit_types.contains(&name);
        let saved = self.in_unit_ty;
        self.in_unit_ty = is_unit_ty;
        visit_mut::visit_path_segment_mut(self, seg);
        self.in_unit_ty = saved;
    }

    fn visit_path_arguments_mut(&mut self, pa: &mut PathArguments) {
        if !self.in_unit_ty {
            // not one of the unit's own types (Result, Option, Vec, ..): keep the arguments, rename inside
            if let PathArguments::AngleBracketed(ab) = pa {
                let mut args = punctuated::Punctuated::new();
                for a in ab.args.iter() {
                    match a {
                        GenericArgument::Lifetime(_) => {}
                        other => args.push(other.clone()),
                    }
                }
                ab.args = args;
                if ab.args.is_empty() {
                    *pa = PathArguments::None;
                    return;
                }
            }
            let saved = self.in_unit_ty;
            self.in_unit_ty = false;
            visit_mut::visit_path_arguments_mut(self, pa);
            self.in_unit_ty = saved;
            return;
        }
        if let PathArguments::AngleBracketed(ab) = pa {
            let mut args = punctuated::Punctuated::new();
            for a in ab.args.iter() {
                match a {
                    GenericArgument::Lifetime(_) => {}
                    GenericArgument::Type(t) if self.type_mentions_dropped(t) => {}
                    other => args.push(other.clone()),
                }
            }
            ab.args = args;
            if ab.args.is_empty() {
                *pa = PathArguments::None;
                return;
            }
        }
        visit_mut::visit_path_arguments_mut(self, pa);
    }

    fn visit_type_param_bound_mut(&mut self, b: &mut TypeParamBound) {
        visit_mut::visit_type_param_bound_mut(self, b);
    }

    fn visit_bound_lifetimes_mut(&mut self, _i: &mut BoundLifetimes) {}
}

pub fn is_unit_path(p: &Path, s: &str) -> bool {
    path_is_ident(p, s)
}
