//! Emission: items → rustfmt → splice of overlay contracts / ghost statements → Verus file + map.
use crate::spec::{Clause, FnSpec, GhostStmt, StructSpec, Unit};
use crate::ty::TyRw;
use crate::FoundFn;
use quote::{quote, ToTokens};
use std::collections::BTreeMap;
use std::io::Write;
use syn::visit_mut::VisitMut;
use syn::*;

struct FnOut {
    id: String,
    spec: FnSpec,
    tokens: String,
    line_start: usize,
    line_end: usize,
    src_path: String,
    keys: Vec<String>,
    poolstr: String,
    renames: Vec<(String, String)>,
}

pub struct Emitter<'a> {
    u: &'a Unit,
    variant: String,
    verif: String,
    items: Vec<String>,
    impls: Vec<(String, String, Vec<FnOut>)>, // (key, header, fns)
    free: Vec<FnOut>,
    pub vacuity: bool,
    pub vacuity_all: bool,
}

fn json_str(s: &str) -> String {
    let mut o = String::from("\"");
    for c in s.chars() {
        match c {
            '"' => o.push_str("\\\""),
            '\\' => o.push_str("\\\\"),
            '\n' => o.push_str("\\n"),
            '\t' => o.push_str("\\t"),
            c if (c as u32) < 0x20 => o.push_str(&format!("\\u{:04x}", c as u32)),
            c => o.push(c),
        }
    }
    o.push('"');
    o
}

thread_local! {
    /// `local NAME ORD` of the function being emitted, resolved: overlay name -> name in the current source
    pub static LOCAL_RENAMES: std::cell::RefCell<Vec<(String, String)>> = std::cell::RefCell::new(vec![]);
}

fn rename_locals(text: &str) -> String {
    LOCAL_RENAMES.with(|r| {
        let r = r.borrow();
        if r.is_empty() {
            return text.to_string();
        }
        // whole-identifier replacement
        let cs: Vec<char> = text.chars().collect();
        let mut out = String::new();
        let mut i = 0;
        while i < cs.len() {
            if cs[i].is_alphabetic() || cs[i] == '_' {
                let st = i;
                while i < cs.len() && (cs[i].is_alphanumeric() || cs[i] == '_') {
                    i += 1;
                }
                let w: String = cs[st..i].iter().collect();
                let prev_dot = st > 0 && cs[st - 1] == '.';
                // `S { name: .. }` names a field, not the local (but `name::` is a path and `a ? name : b` does not occur)
                let mut k = i;
                while k < cs.len() && cs[k] == ' ' {
                    k += 1;
                }
                let field_init = k < cs.len() && cs[k] == ':' && !(k + 1 < cs.len() && cs[k + 1] == ':');
                match r.iter().find(|(a, _)| *a == w) {
                    Some((_, b)) if !prev_dot && !field_init => out.push_str(b),
                    _ => out.push_str(&w),
                }
            } else {
                out.push(cs[i]);
                i += 1;
            }
        }
        out
    })
}

fn subst_pool(text: &str, pool: &str) -> String {
    let text = &rename_locals(text);
    // `&$P` with `$P` a `&mut` reference (bare identifier) must reborrow
    let bare = !pool.contains('.') && !pool.is_empty();
    let t = if bare { text.replace("&$P", &format!("&*{}", pool)) } else { text.to_string() };
    t.replace("$P", pool)
}

fn variant_ok(v: &Option<String>, variant: &str) -> bool {
    match v {
        None => true,
        Some(x) => x == variant,
    }
}

pub fn filter_variant_lines(text: &str, variant: &str) -> String {
    let mut out = String::new();
    for l in text.lines() {
        let t = l.trim_end();
        if let Some(p) = t.rfind("//@") {
            let tag = t[p + 3..].trim();
            if tag == "conc" || tag == "iso" {
                if tag == variant {
                    out.push_str(t[..p].trim_end());
                    out.push('\n');
                }
                continue;
            }
        }
        out.push_str(l);
        out.push('\n');
    }
    out
}

impl<'a> Emitter<'a> {
    pub fn new(u: &'a Unit, variant: &str, verif: &str) -> Self {
        Emitter { u, variant: variant.to_string(), verif: verif.to_string(), items: vec![], impls: vec![], free: vec![], vacuity: false, vacuity_all: false }
    }

    pub fn add_struct(&mut self, st: &ItemStruct, ss: &StructSpec) {
        let mut g = st.generics.clone();
        let rw = TyRw { u: self.u, in_unit_ty: false };
        rw.rewrite_generics(&mut g);
        let name = &match &ss.rename { Some(r) => Ident::new(r, proc_macro2::Span::call_site()), None => st.ident.clone() };
        let mut fields = vec![];
        if let Fields::Named(nf) = &st.fields {
            for f in nf.named.iter() {
                if !crate::attrs_cfg_pub(&f.attrs) {
                    continue;
                }
                let fname = f.ident.as_ref().unwrap();
                if ss.drop_fields.iter().any(|d| fname == d) {
                    continue;
                }
                let mut ty = f.ty.clone();
                if let Some((_, t)) = ss.retype.iter().find(|(n, _)| fname == n) {
                    ty = syn::parse_str(t).expect("retype type");
                } else {
                    let mut rw2 = TyRw { u: self.u, in_unit_ty: false };
                    rw2.visit_type_mut(&mut ty);
                }
                fields.push(quote!(pub #fname: #ty));
            }
        } else if let Fields::Unnamed(uf) = &st.fields {
            // tuple struct (`struct DropGuard<F>(F);`): emitted as it is (no ghost fields / retypes)
            let mut tys = vec![];
            for f in uf.unnamed.iter() {
                let mut ty = f.ty.clone();
                let mut rw2 = TyRw { u: self.u, in_unit_ty: false };
                rw2.visit_type_mut(&mut ty);
                tys.push(quote!(pub #ty));
            }
            let (ig, _, wc) = g.split_for_impl();
            let ts = quote!(pub struct #name #ig (#(#tys),*) #wc;);
            self.items.push(ts.to_string());
            return;
        } else {
            crate::die_pub(&format!("unsupported construct: struct {} is a unit struct", name));
        }
        for (n, t, _) in ss.ghost_fields.iter() {
            let id = Ident::new(n, proc_macro2::Span::call_site());
            let ty: Type = syn::parse_str(t).expect("ghost field type");
            fields.push(quote!(pub #id: #ty));
        }
        let derive = if ss.derive.is_empty() {
            quote!()
        } else {
            let ds: Vec<Ident> = ss.derive.iter().map(|d| Ident::new(d, proc_macro2::Span::call_site())).collect();
            quote!(#[derive(#(#ds),*)])
        };
        let (ig, _, wc) = g.split_for_impl();
        let ts = quote!(#derive pub struct #name #ig #wc { #(#fields),* });
        self.items.push(ts.to_string());
    }

    pub fn add_enum(&mut self, en: &ItemEnum, es: &StructSpec) {
        let mut g = en.generics.clone();
        let rw = TyRw { u: self.u, in_unit_ty: false };
        rw.rewrite_generics(&mut g);
        let name = &match &es.rename { Some(r) => Ident::new(r, proc_macro2::Span::call_site()), None => en.ident.clone() };
        let mut vars = vec![];
        for v in en.variants.iter() {
            if !crate::attrs_cfg_pub(&v.attrs) {
                continue;
            }
            let vn = &v.ident;
            if es.drop_fields.iter().any(|d| vn == d) {
                continue;
            }
            match &v.fields {
                Fields::Unit => vars.push(quote!(#vn)),
                Fields::Unnamed(uf) => {
                    let mut tys = vec![];
                    for f in uf.unnamed.iter() {
                        let mut ty = f.ty.clone();
                        if let Some((_, t)) = es.retype.iter().find(|(n, _)| vn == n) {
                            ty = syn::parse_str(t).expect("retype type");
                        } else {
                            let mut rw2 = TyRw { u: self.u, in_unit_ty: false };
                            rw2.visit_type_mut(&mut ty);
                        }
                        tys.push(ty);
                    }
                    vars.push(quote!(#vn(#(#tys),*)));
                }
                Fields::Named(nf) => {
                    let mut fs = vec![];
                    for f in nf.named.iter() {
                        let mut ty = f.ty.clone();
                        let mut rw2 = TyRw { u: self.u, in_unit_ty: false };
                        rw2.visit_type_mut(&mut ty);
                        let n = f.ident.as_ref().unwrap();
                        fs.push(quote!(#n: #ty));
                    }
                    vars.push(quote!(#vn { #(#fs),* }));
                }
            }
        }
        let derive = if es.derive.is_empty() {
            quote!()
        } else {
            let ds: Vec<Ident> = es.derive.iter().map(|d| Ident::new(d, proc_macro2::Span::call_site())).collect();
            quote!(#[derive(#(#ds),*)])
        };
        let (ig, _, wc) = g.split_for_impl();
        let ts = quote!(#derive pub enum #name #ig #wc { #(#vars),* });
        self.items.push(ts.to_string());
    }

    pub fn add_fn(&mut self, ff: &FoundFn, fs: &FnSpec, sig: Signature, body: Block, keys: Vec<String>, poolstr: String) {
        // `attr split N`: prove the ensures clauses N at a time on copies of the same body (smaller solver queries);
        // the function itself keeps the whole contract for its callers, its body being checked through the copies
        if let Some(n) = fs.attrs.iter().find_map(|a| a.strip_prefix("split ")).and_then(|n| n.trim().parse::<usize>().ok()) {
            let ens: Vec<Clause> = fs.ensures.clone();
            let chunks: Vec<Vec<Clause>> = ens.chunks(n.max(1)).map(|c| c.to_vec()).collect();
            for (k, ch) in chunks.into_iter().enumerate() {
                let mut fs2 = fs.clone();
                fs2.attrs.retain(|a| !a.starts_with("split "));
                fs2.ensures = ch;
                fs2.rename = Some(format!("{}__part{}", fs.rename.clone().unwrap_or_else(|| sig.ident.to_string()), k));
                self.add_fn_one(ff, &fs2, sig.clone(), body.clone(), keys.clone(), poolstr.clone(), Some(k));
            }
            let mut fs3 = fs.clone();
            fs3.attrs.retain(|a| !a.starts_with("split "));
            fs3.attrs.push("#[verifier::external_body] /* split-proved: the body is verified in the __partN copies below */".to_string());
            self.add_fn_one(ff, &fs3, sig, body, keys, poolstr, None);
            return;
        }
        self.add_fn_one(ff, fs, sig, body, keys, poolstr, None);
    }

    fn add_fn_one(&mut self, ff: &FoundFn, fs: &FnSpec, mut sig: Signature, body: Block, keys: Vec<String>, poolstr: String, part: Option<usize>) {
        let cl = match fs.closure { Some(k) => format!("::{{closure#{}}}", k), None => String::new() };
        let id = match part { Some(k) => format!("{}::{}{}#part{}", fs.src, fs.path, cl, k), None => format!("{}::{}{}", fs.src, fs.path, cl) };
        if let Some(r) = &fs.rename {
            sig.ident = Ident::new(r, proc_macro2::Span::call_site());
        }
        let stmts = &body.stmts;
        // quick vacuity twin: the entry probe needs only the precondition; the body is replaced by an arbitrary value
        let entry_only = self.vacuity && !self.vacuity_all && !fs.attrs.iter().any(|a| a.contains("external_body"));
        let ts = if entry_only {
            if fs.traitimpl.is_some() { quote!(#sig { __vx_fn!(#id); vx_arbitrary() }) } else { quote!(pub #sig { __vx_fn!(#id); vx_arbitrary() }) }
        } else if fs.traitimpl.is_some() { quote!(#sig { __vx_fn!(#id); #(#stmts)* }) } else { quote!(pub #sig { __vx_fn!(#id); #(#stmts)* }) };
        let fo = FnOut {
            id: id.clone(),
            spec: fs.clone(),
            tokens: ts.to_string(),
            line_start: ff.line_start,
            line_end: ff.line_end,
            src_path: self.u.sources.get(&fs.src).cloned().unwrap_or_default(),
            keys,
            poolstr,
            renames: LOCAL_RENAMES.with(|r| r.borrow().clone()),
        };
        match (&ff.impl_generics, &ff.impl_self_ty) {
            (Some(g), Some(st)) => {
                let mut g = g.clone();
                let rw = TyRw { u: self.u, in_unit_ty: false };
                rw.rewrite_generics(&mut g);
                let mut st = st.clone();
                let mut rw2 = TyRw { u: self.u, in_unit_ty: false };
                rw2.visit_type_mut(&mut st);
                let (ig, _, wc) = g.split_for_impl();
                let header = match &fs.traitimpl {
                    Some(tr) => {
                        let trp: Path = syn::parse_str(tr).expect("traitimpl path");
                        quote!(impl #ig #trp for #st #wc).to_string()
                    }
                    None => quote!(impl #ig #st #wc).to_string(),
                };
                if let Some(e) = self.impls.iter_mut().find(|(k, _, _)| *k == header) {
                    e.2.push(fo);
                } else {
                    self.impls.push((header.clone(), header, vec![fo]));
                }
            }
            _ => self.free.push(fo),
        }
    }

    fn rustfmt(src: &str) -> String {
        let mut child = std::process::Command::new("rustfmt")
            .args(["--edition", "2021", "--emit", "stdout", "--config", "max_width=150,fn_call_width=120,chain_width=120,struct_lit_width=100"])
            .stdin(std::process::Stdio::piped())
            .stdout(std::process::Stdio::piped())
            .stderr(std::process::Stdio::piped())
            .spawn()
            .unwrap_or_else(|e| crate::die_pub(&format!("cannot run rustfmt: {}", e)));
        child.stdin.as_mut().unwrap().write_all(src.as_bytes()).unwrap();
        let o = child.wait_with_output().unwrap();
        if !o.status.success() {
            let _ = std::fs::write("/tmp/vx_rustfmt_input.rs", src);
            crate::die_pub(&format!("rustfmt failed (input kept in /tmp/vx_rustfmt_input.rs): {}", String::from_utf8_lossy(&o.stderr)));
        }
        String::from_utf8(o.stdout).unwrap()
    }

    fn render_clauses(&self, kw: &str, cs: &[Clause], indent: &str, out: &mut Vec<String>, pool: &str) {
        let cs: Vec<&Clause> = cs.iter().filter(|c| variant_ok(&c.variants, &self.variant)).collect();
        if cs.is_empty() {
            return;
        }
        out.push(format!("{}{}", indent, kw));
        for c in cs {
            match &c.label {
                Some(l) => out.push(format!("{}    {}, // [{}]", indent, subst_pool(c.text.trim_end_matches(','), pool), l)),
                None => out.push(format!("{}    {},", indent, subst_pool(c.text.trim_end_matches(','), pool))),
            }
        }
    }

    fn render_ghost(&self, gs: &[GhostStmt], indent: &str, out: &mut Vec<String>, pool: &str) {
        for g in gs.iter().filter(|g| variant_ok(&g.variants, &self.variant)) {
            for l in g.text.lines() {
                if l.trim().is_empty() {
                    continue;
                }
                out.push(format!("{}{}", indent, subst_pool(l, pool)));
            }
        }
    }

    pub fn finish(self, notes: &[String]) -> (String, String) {
        // 1. plain Rust with markers
        let mut src = String::new();
        for it in self.items.iter() {
            src.push_str(it);
            src.push('\n');
        }
        let mut specs: BTreeMap<String, &FnOut> = BTreeMap::new();
        for (_, header, fns) in self.impls.iter() {
            src.push_str(header);
            src.push_str(" {\n");
            for f in fns.iter() {
                src.push_str(&f.tokens);
                src.push('\n');
                specs.insert(f.id.clone(), f);
            }
            src.push_str("}\n");
        }
        for f in self.free.iter() {
            src.push_str(&f.tokens);
            src.push('\n');
            specs.insert(f.id.clone(), f);
        }
        let formatted = Self::rustfmt(&src);

        // 2. splice
        let lines: Vec<String> = formatted.lines().map(|s| s.to_string()).collect();
        let mut out: Vec<String> = vec![];
        let mut cur_fn: Option<&FnOut> = None;
        for l in lines.iter() {
            let t = l.trim();
            let indent: String = l[..l.len() - l.trim_start().len()].to_string();
            if let Some(rest) = t.strip_prefix("__vx_fn!(") {
                let id = rest.trim_end_matches(");").trim_matches('"').to_string();
                let f = *specs.get(&id).expect("fn marker without spec");
                cur_fn = Some(f);
                LOCAL_RENAMES.with(|r| *r.borrow_mut() = f.renames.clone());
                // signature = lines from the last `fn` line to here (exclusive)
                let mut k = out.len();
                while k > 0 {
                    k -= 1;
                    let tt = out[k].trim_start();
                    if tt.starts_with("pub fn ") || tt.starts_with("fn ") {
                        break;
                    }
                }
                let sig_lines: Vec<String> = out.drain(k..).collect();
                let sig_indent: String = sig_lines[0][..sig_lines[0].len() - sig_lines[0].trim_start().len()].to_string();
                let mut sig = sig_lines.iter().map(|s| s.trim()).collect::<Vec<_>>().join(" ");
                // strip trailing `{`
                assert!(sig.ends_with('{'), "signature does not end with {{: {}", sig);
                sig.pop();
                let sig = sig.trim_end().to_string();
                // name the return value
                let sig = name_return(&sig, f.spec.ret_name.as_deref().unwrap_or("res"));
                out.push(format!("{}// @fn {} {}:{}-{}", sig_indent, f.id, f.src_path, f.line_start, f.line_end));
                if !f.spec.attrs.iter().any(|a| a.contains("loop_isolation")) {
                    out.push(format!("{}#[verifier::loop_isolation(false)]", sig_indent));
                }
                if !f.spec.attrs.iter().any(|a| a.contains("loop_isolation(true)")) {
                    out.push(format!("{}#[verifier::allow_complex_invariants]", sig_indent));
                }
                out.push(format!("{}#[verifier::exec_allows_no_decreases_clause]", sig_indent));
                if !f.spec.attrs.iter().any(|a| a.contains("spinoff_prover")) {
                    out.push(format!("{}#[verifier::spinoff_prover]", sig_indent));
                }
                for a in f.spec.attrs.iter().filter(|a| a.starts_with("#[")) {
                    out.push(format!("{}{}", sig_indent, a));
                }
                out.push(format!("{}{}", sig_indent, sig));
                self.render_clauses("requires", &f.spec.requires, &format!("{}    ", sig_indent), &mut out, &f.poolstr);
                self.render_clauses("ensures", &f.spec.ensures, &format!("{}    ", sig_indent), &mut out, &f.poolstr);
                out.push(format!("{}{{", sig_indent));
                self.render_ghost(&f.spec.entry, &indent, &mut out, &f.poolstr);
                if self.vacuity && !f.spec.attrs.iter().any(|a| a.contains("external_body")) {
                    out.push(format!("{}if vx_nondet() {{ assert(false); }} // [vac {}.entry]", indent, f.spec.rename.clone().unwrap_or_else(|| f.spec.path.clone())));
                }
                continue;
            }
            if let Some(rest) = t.strip_prefix("__vx_ghost!(") {
                let tag = rest.trim_end_matches(");").trim_matches('"').to_string();
                let (when, key) = tag.split_once(':').unwrap();
                let f = cur_fn.expect("ghost marker outside fn");
                let map = if when == "before" { &f.spec.before } else { &f.spec.after };
                if let Some(gs) = map.get(key) {
                    out.push(format!("{}// @ghost {} {}", indent, when, key));
                    self.render_ghost(gs, &indent, &mut out, &f.poolstr);
                }
                continue;
            }
            if let Some(rest) = t.strip_prefix("__vx_reveal!(") {
                let lit = rest.trim_end_matches(");").to_string();
                out.push(format!("{}proof {{ reveal_strlit({}); }}", indent, lit));
                continue;
            }
            if let Some(rest) = t.strip_prefix("__vx_pt!(") {
                let key = rest.trim_end_matches(");").trim_matches('"').to_string();
                let f = cur_fn.expect("pt marker outside fn");
                out.push(format!("{}{}.interfere(); // [inv@{}.{}]", indent, f.poolstr, f.spec.path, key));
                if self.vacuity && self.vacuity_all {
                    // `attr deadprobe KEY`: a point the contracts prove unreachable (e.g. the error arm of a `?` on a callee that never fails)
                    let dead = f.spec.attrs.iter().any(|a| a.strip_prefix("deadprobe ").map(|k| k.trim() == key).unwrap_or(false));
                    out.push(format!("{}if vx_nondet() {{ assert(false); }} // [{} {}.{}]", indent, if dead { "vacdead" } else { "vac" }, f.spec.path, key));
                }
                continue;
            }
            if let Some(rest) = t.strip_prefix("__vx_lockinv!(") {
                let tag = rest.trim_end_matches(");").trim_matches('"').to_string();
                let (when, field) = tag.split_once(':').unwrap();
                let f = cur_fn.expect("lockinv marker outside fn");
                if let Some((_, e)) = self.u.lockinv.iter().find(|(ff, _)| ff == field) {
                    let e = subst_pool(e, &f.poolstr);
                    if when == "acq" {
                        out.push(format!("{}assume({}); // lock-invariant rule: holds whenever the lock is free", indent, e));
                    } else {
                        out.push(format!("{}assert({}); // [lockinv {}.{}]", indent, e, f.spec.path, field));
                    }
                }
                continue;
            }
            if let Some(rest) = t.strip_prefix("__vx_loop!(") {
                let inner = rest.trim_end_matches(");");
                // __vx_loop!(N, FLAG, "x == self.a.b", ..): the string arguments may contain commas
                let mut args: Vec<String> = vec![];
                {
                    let mut cur = String::new();
                    let mut in_str = false;
                    for c in inner.chars() {
                        if c == '"' { in_str = !in_str; continue; }
                        if c == ',' && !in_str { args.push(cur.trim().to_string()); cur.clear(); continue; }
                        cur.push(c);
                    }
                    if !cur.trim().is_empty() { args.push(cur.trim().to_string()); }
                }
                let n: usize = args[0].parse().unwrap();
                let by_ordinal = args.get(1).map(|x| x == "1").unwrap_or(false);
                let hoisted: Vec<String> = args.iter().skip(2).cloned().collect();
                let f = cur_fn.expect("loop marker outside fn");
                // header = previous line ending with `{`
                let mut k = out.len();
                while k > 0 {
                    k -= 1;
                    if out[k].trim_end().ends_with('{') {
                        break;
                    }
                }
                let mut head = out[k].trim_end().to_string();
                head.pop();
                let hindent: String = out[k][..out[k].len() - out[k].trim_start().len()].to_string();
                out[k] = head.trim_end().to_string();
                if let Some(ls) = f.spec.loops.get(&n) {
                    let mut init: Vec<String> = vec![];
                    self.render_ghost(&ls.init, &hindent, &mut init, &f.poolstr);
                    if !init.is_empty() {
                        let header = out.remove(k);
                        for (j, l) in init.into_iter().enumerate() {
                            out.insert(k + j, l);
                        }
                        out.push(header);
                    }
                }
                let k = out.len() - 1;
                let tail: Vec<String> = out.drain(k + 1..).collect();
                out.push(format!("{}    // @loop {}{}", hindent, n, if by_ordinal { " (by ordinal)" } else { "" }));
                if let Some(ls) = f.spec.loops.get(&n) {
                    self.render_clauses("invariant_except_break", &ls.invariant_except_break, &format!("{}    ", hindent), &mut out, &f.poolstr);
                    self.render_clauses("invariant", &ls.invariant, &format!("{}    ", hindent), &mut out, &f.poolstr);
                    // a function proved with loop isolation forgets what it knew about immutable locals read from `self` before the
                    // loop; restated as invariants (marked `auto`: `check` never takes their failure, or what follows from it, for a
                    // violation)
                    if f.spec.attrs.iter().any(|a| a.contains("loop_isolation(true)")) && !ls.invariant.iter().filter(|c| variant_ok(&c.variants, &self.variant)).collect::<Vec<_>>().is_empty() {
                        for h in hoisted.iter() {
                            out.push(format!("{}        {}, // [auto hoisted-local]", hindent, h));
                        }
                    }
                    self.render_clauses("ensures", &ls.ensures, &format!("{}    ", hindent), &mut out, &f.poolstr);
                    if let Some(d) = &ls.decreases {
                        out.push(format!("{}    decreases {},", hindent, d));
                    }
                }
                out.push(format!("{}{{", hindent));
                if let Some(ls) = f.spec.loops.get(&n) {
                    self.render_ghost(&ls.body, &format!("{}    ", hindent), &mut out, &f.poolstr);
                }
                out.extend(tail);
                continue;
            }
            if let Some(rest) = t.strip_prefix("__vx_src!(") {
                let n = rest.trim_end_matches(");").to_string();
                out.push(format!("{}// @src {}", indent, n));
                continue;
            }
            out.push(l.clone());
        }

        // 3. assemble
        let mut text: Vec<String> = vec![];
        text.push(format!("// GENERATED by vx (unit {}, variant {}) from the current /repo tree — do not edit.", self.u.name, self.variant));
        text.push("#![feature(allocator_api)]".to_string());
        text.push("#![allow(unused_imports, unused_variables, unused_mut, dead_code, unused_assignments, unreachable_code, non_snake_case, unused_parens, unused_braces)]".to_string());
        text.push("use vstd::prelude::*;".to_string());
        text.push("use std::collections::VecDeque;".to_string());
        text.push("use vstd::std_specs::convert::*;".to_string());
        text.push("use vstd::std_specs::cmp::*;".to_string());
        text.push("verus! {".to_string());
        for inc in self.u.includes.iter() {
            let p = format!("{}/{}", self.verif, inc);
            let t = std::fs::read_to_string(&p).unwrap_or_else(|e| crate::die_pub(&format!("cannot read include {}: {}", p, e)));
            text.push(format!("// ===== include {}", inc));
            for l in filter_variant_lines(&t, &self.variant).lines() {
                text.push(l.to_string());
            }
        }
        for (v, vb) in self.u.verbatim.iter() {
            if variant_ok(v, &self.variant) {
                text.push("// ===== verbatim (overlay)".to_string());
                for l in filter_variant_lines(vb, &self.variant).lines() {
                    text.push(l.to_string());
                }
            }
        }
        text.push("// ===== extracted from /repo".to_string());
        let extracted_start = text.len();
        text.extend(out);
        text.push("} // verus!".to_string());
        text.push("fn main() {}".to_string());

        // 4. map
        let mut labels: Vec<String> = vec![];
        let mut fns: Vec<String> = vec![];
        let mut srcs: Vec<String> = vec![];
        let mut cur: Option<(String, usize)> = None;
        for (i, l) in text.iter().enumerate() {
            let ln = i + 1;
            if let Some(p) = l.find("// [") {
                if let Some(e) = l[p..].find(']') {
                    labels.push(format!("{}: {}", json_str(&ln.to_string()), json_str(&l[p + 4..p + e])));
                }
            }
            let t = l.trim();
            if let Some(rest) = t.strip_prefix("// @fn ") {
                if let Some((id, start)) = cur.take() {
                    fns.push(format!("{{\"id\": {}, \"start\": {}, \"end\": {}}}", json_str(&id), start, ln - 1));
                }
                let id = rest.split_whitespace().next().unwrap().to_string();
                cur = Some((id, ln));
            }
            if let Some(rest) = t.strip_prefix("// @src ") {
                srcs.push(format!("{}: {}", json_str(&ln.to_string()), rest.trim()));
            }
        }
        if let Some((id, start)) = cur.take() {
            fns.push(format!("{{\"id\": {}, \"start\": {}, \"end\": {}}}", json_str(&id), start, text.len()));
        }
        let mut fninfo: Vec<String> = vec![];
        for f in specs.values() {
            let lab: Vec<String> = f
                .spec
                .requires
                .iter()
                .chain(f.spec.ensures.iter())
                .chain(f.spec.loops.values().flat_map(|l| l.invariant.iter().chain(l.invariant_except_break.iter()).chain(l.ensures.iter())))
                .filter(|c| variant_ok(&c.variants, &self.variant))
                .filter_map(|c| c.label.clone())
                .map(|l| json_str(&l))
                .collect();
            fninfo.push(format!(
                "{}: {{\"src\": {}, \"lines\": [{}, {}], \"labels\": [{}], \"keys\": [{}], \"props\": [{}], \"anchors\": {}}}",
                json_str(&f.id),
                json_str(&f.src_path),
                f.line_start,
                f.line_end,
                lab.join(", "),
                f.keys.iter().map(|k| json_str(k)).collect::<Vec<_>>().join(", "),
                f.spec.props.iter().map(|k| json_str(k)).collect::<Vec<_>>().join(", "),
                f.spec.before.len() + f.spec.after.len(),
            ));
        }
        let map = format!(
            "{{\n\"unit\": {}, \"variant\": {}, \"extracted_start\": {},\n\"labels\": {{{}}},\n\"fn_ranges\": [{}],\n\"src_lines\": {{{}}},\n\"fns\": {{{}}},\n\"notes\": [{}]\n}}\n",
            json_str(&self.u.name),
            json_str(&self.variant),
            extracted_start + 1,
            labels.join(", "),
            fns.join(", "),
            srcs.join(", "),
            fninfo.join(",\n"),
            notes.iter().map(|n| json_str(n)).collect::<Vec<_>>().join(", ")
        );
        (text.join("\n") + "\n", map)
    }
}

/// `fn f(..) -> T`  →  `fn f(..) -> (res: T)`
fn name_return(sig: &str, name: &str) -> String {
    // find the parameter list: first `(` after "fn "
    let fn_pos = sig.find("fn ").unwrap_or(0);
    let bytes: Vec<char> = sig.chars().collect();
    let mut i = fn_pos;
    // skip generics `<...>` before the parameter list
    let mut depth_angle = 0i32;
    while i < bytes.len() {
        match bytes[i] {
            '<' => depth_angle += 1,
            '>' => depth_angle -= 1,
            '(' if depth_angle == 0 => break,
            _ => {}
        }
        i += 1;
    }
    let mut depth = 0i32;
    let mut close = None;
    while i < bytes.len() {
        match bytes[i] {
            '(' => depth += 1,
            ')' => {
                depth -= 1;
                if depth == 0 {
                    close = Some(i);
                    break;
                }
            }
            _ => {}
        }
        i += 1;
    }
    let close = match close {
        Some(c) => c,
        None => return sig.to_string(),
    };
    let head: String = bytes[..=close].iter().collect();
    let rest: String = bytes[close + 1..].iter().collect();
    let rest_t = rest.trim_start();
    if let Some(r) = rest_t.strip_prefix("->") {
        let r = r.trim();
        // where clause?
        let (ret, wc) = match r.find(" where ") {
            Some(p) => (r[..p].trim().to_string(), r[p..].to_string()),
            None => (r.to_string(), String::new()),
        };
        format!("{} -> ({}: {}){}", head, name, ret, wc)
    } else {
        format!("{}{}", head, rest)
    }
}

#[allow(dead_code)]
fn unused(_: &dyn ToTokens) {}
