//! Body elaboration: rewrite rules R1–R10 of DESIGN.md §3.1 applied to one function body.
//!
//! Everything here is syntax directed.  A construct outside the rules raises `Unsupported`
//! (the driver exits 2; never a VIOLATION).
use crate::spec::{FnSpec, Unit};
use proc_macro2::Span;
use quote::{format_ident, quote, ToTokens};
use std::collections::{BTreeMap, BTreeSet};
use syn::fold::{self, Fold};
use syn::spanned::Spanned;
use syn::*;

#[derive(Clone, Debug)]
pub enum RaiiKind {
    Lock { place: Expr, field: String },
    Permit { sem: Expr, field: String, wrapped: bool },
    Guard { body: Block },
    Backref { pool: Expr },
    Fut,
    Custom { stmt: String },
}

#[derive(Clone, Debug)]
pub struct Raii {
    pub name: String,
    pub kind: RaiiKind,
    pub depth: usize,
}

#[derive(Clone, Default, Debug)]
pub struct Env {
    pub aliases: Vec<(String, Expr)>,
    pub raii: Vec<Raii>,
    pub depth: usize,
}

pub struct Tables {
    pub internal_async: BTreeSet<String>, // method / fn names of extracted async fns
    pub prim_fields: BTreeSet<String>,    // fields of Semaphore / Atomic* type
    pub mutex_fields: BTreeSet<String>,
    pub drop_types: BTreeSet<String>,     // types with an extracted `drop`
    pub backparam_fns: BTreeMap<String, String>, // "Type::method" -> param name
    pub fn_ret_head: BTreeMap<String, String>, // extracted function name -> `Result` / `Option` (head of its declared return type)
    pub field_types: BTreeMap<(String, String), String>, // (struct, field) -> declared type, spaces removed
    pub mutref_params: BTreeMap<String, Vec<usize>>, // method name -> positions of parameters retyped to `&mut T` (a `&x` argument becomes `&mut x`)
    pub ghost_structs: BTreeMap<String, Vec<(String, String)>>, // struct -> (field, init)
    pub dropped_fields: BTreeMap<String, Vec<String>>,
    pub unit_fns: BTreeSet<String>,
    pub arc_fields: BTreeSet<String>,
}

pub const ATOMIC_METHODS: &[&str] = &[
    "try_acquire", "acquire", "add_permits", "close", "is_closed", "try_acquire_many",
    "fetch_add", "fetch_sub", "load", "store", "forget_permits", "available_permits",
];
pub const ACQUIRE_METHODS: &[&str] = &["try_acquire", "acquire", "try_acquire_many", "acquire_many"];
pub const CONSUMER_METHODS: &[&str] = &["forget", "disarm", "ready", "await_", "then_", "drop_unpolled_"];

pub struct Elab<'a> {
    pub u: &'a Unit,
    pub spec: &'a FnSpec,
    pub t: &'a Tables,
    pub impl_ty: Option<String>,
    pub pool: Option<Expr>,
    pub ctl: bool,
    pub ret_option: bool, // the function returns `Option<_>`: `?` is on options
    pub env: Env,
    pub counters: BTreeMap<String, usize>,
    pub loop_ctr: usize,
    pub cur_loop: usize,
    pub unwinding: bool,
    pub local_ren: Vec<(String, String)>, // (name in the overlay, name in the source now)
    pub used_loops: BTreeSet<usize>,
    pub all_loop_headers: Vec<String>,
    pub brk_ctr: usize,
    pub used_keys: BTreeSet<String>,
    pub notes: Vec<String>,
    pub errors: Vec<String>,
    pub pending_locks: Vec<(Expr, String, bool)>, // (place, field, panics when poisoned)
    pub pending_raii: Vec<Raii>,
    pub block_moved: Option<Raii>,
    pub hoisted: Vec<(String, String)>, // immutable locals initialised by a pure field read of `self` (name, expression as written) // the RAII local the block folded last moved out through its tail expression
    pub brk_stack: Vec<Option<Ident>>,
    pub self_rename: Option<Ident>,
    pub backparam: Option<(String, String)>, // (field, param) for this fn's impl type
    pub loop_depth_raii: Vec<Vec<String>>,
    pub cur_key: String,
}

fn ident(s: &str) -> Ident {
    Ident::new(s, Span::call_site())
}

pub fn expr_to_string(e: &Expr) -> String {
    e.to_token_stream().to_string()
}

fn peel_paren(e: &Expr) -> &Expr {
    match e {
        Expr::Paren(p) => peel_paren(&p.expr),
        Expr::Group(g) => peel_paren(&g.expr),
        _ => e,
    }
}

pub fn path_single_ident(e: &Expr) -> Option<String> {
    if let Expr::Path(p) = peel_paren(e) {
        if p.qself.is_none() && p.path.segments.len() == 1 && p.path.segments[0].arguments.is_none() {
            return Some(p.path.segments[0].ident.to_string());
        }
    }
    None
}

fn last_field(e: &Expr) -> Option<String> {
    match peel_paren(e) {
        Expr::Field(f) => match &f.member {
            Member::Named(i) => Some(i.to_string()),
            Member::Unnamed(i) => Some(i.index.to_string()),
        },
        _ => None,
    }
}

fn path_to_string(p: &Path) -> String {
    p.segments.iter().map(|s| s.ident.to_string()).collect::<Vec<_>>().join("::")
}

pub fn diverges(e: &Expr) -> bool {
    match e {
        Expr::Return(_) | Expr::Break(_) | Expr::Continue(_) => true,
        Expr::Block(b) => block_diverges(&b.block),
        Expr::Paren(p) => diverges(&p.expr),
        Expr::If(i) => {
            block_diverges(&i.then_branch)
                && i.else_branch.as_ref().map(|(_, e)| diverges(e)).unwrap_or(false)
        }
        Expr::Match(m) => !m.arms.is_empty() && m.arms.iter().all(|a| diverges(&a.body)),
        _ => false,
    }
}

pub fn block_diverges(b: &Block) -> bool {
    match b.stmts.last() {
        Some(Stmt::Expr(e, _)) => diverges(e),
        _ => false,
    }
}

/// find the first semaphore acquisition call (`X.try_acquire()` / `X.acquire()`) in `e`,
/// not looking into closures
fn find_acquire(e: &Expr) -> Option<(Expr, String)> {
    struct V(Option<(Expr, String)>);
    impl<'ast> syn::visit::Visit<'ast> for V {
        fn visit_expr_method_call(&mut self, m: &'ast ExprMethodCall) {
            if self.0.is_some() {
                return;
            }
            let name = m.method.to_string();
            if ACQUIRE_METHODS.contains(&name.as_str()) {
                if let Some(f) = last_field(&m.receiver) {
                    self.0 = Some(((*m.receiver).clone(), f));
                    return;
                }
            }
            syn::visit::visit_expr_method_call(self, m);
        }
        fn visit_expr_closure(&mut self, _c: &'ast ExprClosure) {}
    }
    let mut v = V(None);
    syn::visit::Visit::visit_expr(&mut v, e);
    v.0
}

/// is the value of `e` visibly still the `Result` of an acquire (no `?` / `unwrap` / `match` took the permit out)? Then a
/// local initialised with it holds `Result<SemaphorePermit, _>` rather than the permit. Anything not recognised counts as
/// "the permit itself" (the form the pinned code uses).
fn acquire_unwrapped(e: &Expr) -> bool {
    fn block_wrapped(b: &Block) -> bool {
        match b.stmts.last() {
            Some(Stmt::Expr(e, None)) => wrapped(e),
            _ => false,
        }
    }
    fn wrapped(e: &Expr) -> bool {
        match e {
            Expr::Paren(p) => wrapped(&p.expr),
            Expr::Block(b) => block_wrapped(&b.block),
            Expr::If(i) => block_wrapped(&i.then_branch) || i.else_branch.as_ref().map(|(_, e)| wrapped(e)).unwrap_or(false),
            Expr::Match(m) => m.arms.iter().any(|a| wrapped(&a.body)),
            Expr::Await(_) => true,
            Expr::MethodCall(m) => {
                let n = m.method.to_string();
                ACQUIRE_METHODS.contains(&n.as_str()) || n == "map_err" || n == "map" || n == "or_else" || n == "and_then"
            }
            _ => false,
        }
    }
    !wrapped(e)
}

/// `P.lock().unwrap_or_else(PoisonError::into_inner)` / `P.lock().unwrap_or_else(|e| e.into_inner())`: the guard is taken
/// whether or not the mutex is poisoned
fn is_lock_anyway(e: &Expr) -> Option<&Expr> {
    if let Expr::MethodCall(m) = peel_paren(e) {
        if m.method == "unwrap_or_else" && m.args.len() == 1 {
            let ok = match peel_paren(&m.args[0]) {
                Expr::Path(p) => {
                    let segs: Vec<String> = p.path.segments.iter().map(|s| s.ident.to_string()).collect();
                    segs.len() >= 2 && segs[segs.len() - 2] == "PoisonError" && segs[segs.len() - 1] == "into_inner"
                }
                Expr::Closure(cl) if cl.inputs.len() == 1 => {
                    let pn = match &cl.inputs[0] { Pat::Ident(pi) => Some(pi.ident.to_string()), _ => None };
                    match (pn, peel_paren(&cl.body)) {
                        (Some(pn), Expr::MethodCall(t)) => t.method == "into_inner" && t.args.is_empty() && path_single_ident(&t.receiver).as_deref() == Some(pn.as_str()),
                        _ => false,
                    }
                }
                _ => false,
            };
            if ok {
                if let Expr::MethodCall(l) = peel_paren(&m.receiver) {
                    if l.method == "lock" && l.args.is_empty() {
                        return Some(&l.receiver);
                    }
                }
            }
        }
    }
    None
}

/// the expression that yields the value of `e`: through parentheses, block tails and the `let v: T = X; v` tail an inlined
/// helper leaves
fn value_expr(e: &Expr) -> &Expr {
    match e {
        Expr::Paren(p) => value_expr(&p.expr),
        Expr::Block(b) if b.label.is_none() => {
            let st = &b.block.stmts;
            match st.last() {
                Some(Stmt::Expr(t, None)) => {
                    if let (Some(v), true) = (path_single_ident(t), st.len() >= 2) {
                        if let Stmt::Local(l) = &st[st.len() - 2] {
                            let bound = match &l.pat {
                                Pat::Type(pt) => match &*pt.pat { Pat::Ident(pi) => Some(pi.ident.to_string()), _ => None },
                                Pat::Ident(pi) => Some(pi.ident.to_string()),
                                _ => None,
                            };
                            if bound.as_deref() == Some(v.as_str()) {
                                if let Some(init) = &l.init {
                                    return value_expr(&init.expr);
                                }
                            }
                        }
                    }
                    value_expr(t)
                }
                _ => e,
            }
        }
        _ => e,
    }
}

/// `{ ..; let v: Head<..> = X; v }` (what an inlined helper with a declared return type leaves): `Head`
fn annotated_block_head(e: &Expr) -> Option<String> {
    if let Expr::Block(b) = peel_paren(e) {
        let st = &b.block.stmts;
        if st.len() >= 2 {
            if let (Stmt::Local(l), Stmt::Expr(t, None)) = (&st[st.len() - 2], &st[st.len() - 1]) {
                if let (Pat::Type(pt), Some(v)) = (&l.pat, path_single_ident(t)) {
                    if let Pat::Ident(pi) = &*pt.pat {
                        if pi.ident == v {
                            if let Type::Path(tp) = &*pt.ty {
                                return tp.path.segments.last().map(|s| s.ident.to_string());
                            }
                        }
                    }
                }
            }
        }
    }
    None
}

fn is_lock_unwrap(e: &Expr) -> Option<&Expr> {
    // P.lock().unwrap() | P.write().unwrap() | P.read().unwrap()
    if let Expr::MethodCall(m) = peel_paren(e) {
        if m.method == "unwrap" && m.args.is_empty() {
            if let Expr::MethodCall(l) = peel_paren(&m.receiver) {
                if (l.method == "lock" || l.method == "write" || l.method == "read") && l.args.is_empty() {
                    return Some(&l.receiver);
                }
            }
        }
    }
    None
}

fn block_of(stmts: Vec<Stmt>) -> Block {
    Block { brace_token: Default::default(), stmts }
}

fn expr_block(stmts: Vec<Stmt>) -> Expr {
    Expr::Block(ExprBlock { attrs: vec![], label: None, block: block_of(stmts) })
}

fn stmt_expr(e: Expr) -> Stmt {
    Stmt::Expr(e, Some(Default::default()))
}

fn has_break_value(b: &Block) -> bool {
    struct V(bool);
    impl<'ast> syn::visit::Visit<'ast> for V {
        fn visit_expr_break(&mut self, b: &'ast ExprBreak) {
            if b.expr.is_some() {
                self.0 = true;
            }
        }
        fn visit_expr_loop(&mut self, _l: &'ast ExprLoop) {}
        fn visit_expr_while(&mut self, _l: &'ast ExprWhile) {}
        fn visit_expr_for_loop(&mut self, _l: &'ast ExprForLoop) {}
        fn visit_expr_closure(&mut self, _c: &'ast ExprClosure) {}
    }
    let mut v = V(false);
    syn::visit::Visit::visit_block(&mut v, b);
    v.0
}

impl<'a> Elab<'a> {
    pub fn unsupported(&mut self, what: &str, sp: Span) {
        self.errors.push(format!("unsupported construct: {} (line {})", what, sp.start().line));
    }

    fn next_key(&mut self, base: &str) -> String {
        // keys that start with the name of a local: use the name the overlay knows it by (`local NAME ORD`)
        let head: String = base.chars().take_while(|c| c.is_alphanumeric() || *c == '_').collect();
        let base = match self.local_ren.iter().find(|(_, actual)| *actual == head && !head.is_empty()) {
            Some((overlay, _)) => format!("{}{}", overlay, &base[head.len()..]),
            None => base.to_string(),
        };
        let base = base.as_str();
        let c = self.counters.entry(base.to_string()).or_insert(0);
        let k = format!("{}#{}", base, *c);
        *c += 1;
        self.cur_key = k.clone();
        k
    }

    fn ghost_marker(&mut self, when: &str, key: &str) -> Option<Stmt> {
        let base = key.split('#').next().unwrap().to_string();
        let map = if when == "before" { &self.spec.before } else { &self.spec.after };
        let hit = if map.contains_key(key) {
            Some(key.to_string())
        } else if map.contains_key(&base) {
            Some(base)
        } else {
            None
        };
        hit.map(|k| {
            self.used_keys.insert(format!("{}:{}", when, k));
            let tag = format!("{}:{}", when, k);
            let s: Stmt = parse_quote!(__vx_ghost!(#tag););
            s
        })
    }

    fn lockinv_marker(&self, when: &str, field: &str) -> Option<Stmt> {
        if self.u.lockinv.iter().any(|(f, _)| f == field) {
            let tag = format!("{}:{}", when, field);
            let s: Stmt = parse_quote!(__vx_lockinv!(#tag););
            Some(s)
        } else {
            None
        }
    }

    fn pt(&mut self) -> Option<Stmt> {
        let k = self.cur_key.clone();
        self.pool.clone().map(|_p| {
            let s: Stmt = parse_quote!(__vx_pt!(#k););
            s
        })
    }

    /// `{ pt; before; let __r = op; after; __r }`
    fn wrap_op(&mut self, op: Expr, base: &str, atomic: bool) -> Expr {
        let key = self.next_key(base);
        let before = self.ghost_marker("before", &key);
        let after = self.ghost_marker("after", &key);
        if !atomic && before.is_none() && after.is_none() {
            return op;
        }
        let mut stmts = vec![];
        if atomic {
            if let Some(p) = self.pt() {
                stmts.push(p);
            } else {
                self.notes.push(format!("atomic op `{}` in a function without pool path: no interference point", base));
            }
        }
        stmts.extend(before);
        if after.is_none() {
            stmts.push(Stmt::Expr(op, None));
        } else {
            stmts.push(parse_quote!(let __r = #op;));
            stmts.extend(after);
            stmts.push(Stmt::Expr(parse_quote!(__r), None));
        }
        expr_block(stmts)
    }

    // ---------------------------------------------------------------- RAII
    fn find_raii(&self, name: &str) -> Option<usize> {
        self.env.raii.iter().rposition(|r| r.name == name)
    }

    fn consume(&mut self, name: &str) -> Option<Raii> {
        self.find_raii(name).map(|i| self.env.raii.remove(i))
    }

    fn drop_stmts(&mut self, r: &Raii) -> Vec<Stmt> {
        let name = ident(&r.name);
        match &r.kind {
            RaiiKind::Lock { place, field } => {
                let key = self.next_key(&format!("{}.unlock", field));
                let mut v = vec![];
                v.extend(self.ghost_marker("before", &key));
                v.extend(self.lockinv_marker("rel", field));
                if self.unwinding && self.u.poisonlocks {
                    v.push(parse_quote!(#place.unlock_unwinding_();));
                } else {
                    v.push(parse_quote!(#place.unlock_();));
                }
                v.extend(self.ghost_marker("after", &key));
                v
            }
            RaiiKind::Permit { sem, field, wrapped } => {
                let key = self.next_key(&format!("{}.permit_drop", field));
                let mut v = vec![];
                v.extend(self.pt());
                v.extend(self.ghost_marker("before", &key));
                v.push(parse_quote!(#sem.release_(#name);));
                v.extend(self.ghost_marker("after", &key));
                if *wrapped {
                    // the local holds `Result<SemaphorePermit, _>`: only an `Ok` has a permit to give back
                    let name2 = name.clone();
                    let mut w: Vec<Stmt> = vec![];
                    w.push(parse_quote!(match #name2 { Ok(#name) => { #(#v)* } Err(_) => {} }));
                    return w;
                }
                v
            }
            RaiiKind::Guard { body } => {
                // inline the closure body (what Drop::drop of DropGuard runs)
                let saved = self.env.clone();
                self.env.raii.clear();
                let b = self.fold_block_scoped(body.clone(), vec![]);
                self.env = saved;
                vec![stmt_expr(Expr::Block(ExprBlock { attrs: vec![], label: None, block: b }))]
            }
            RaiiKind::Backref { pool } => {
                vec![parse_quote!(#name.drop(&mut #pool);)]
            }
            RaiiKind::Fut => vec![parse_quote!(#name.drop_unpolled_();)],
            RaiiKind::Custom { stmt } => {
                let s: Stmt = syn::parse_str(stmt).expect("custom drop stmt");
                vec![s]
            }
        }
    }

    /// the drops that run while a panic (or a cancellation) unwinds: lock guards poison their mutex (`poisonlocks`)
    fn unwind_drops(&mut self) -> Vec<Stmt> {
        let was = self.unwinding;
        self.unwinding = true;
        let d = self.all_drops();
        self.unwinding = was;
        d
    }

    /// drops for every live RAII local (reverse declaration order); env unchanged
    fn all_drops(&mut self) -> Vec<Stmt> {
        let live: Vec<Raii> = self.env.raii.iter().rev().cloned().collect();
        let mut v = vec![];
        if self.spec.before.contains_key("exit") {
            self.used_keys.insert("before:exit".to_string());
            v.push(parse_quote!(__vx_ghost!("before:exit");));
        }
        for r in live.iter() {
            v.extend(self.drop_stmts(r));
        }
        v
    }

    fn append_after_value(e: Expr, drops: Vec<Stmt>, unit_value: bool) -> Expr {
        if drops.is_empty() {
            return e;
        }
        let mut stmts = vec![];
        if unit_value {
            stmts.push(stmt_expr(e));
            stmts.extend(drops);
        } else {
            stmts.push(parse_quote!(let __t = #e;));
            stmts.extend(drops);
            stmts.push(Stmt::Expr(parse_quote!(__t), None));
        }
        expr_block(stmts)
    }

    fn wrap_ret(&self, v: Option<Expr>) -> Expr {
        if self.ctl {
            match v {
                Some(v) => parse_quote!(Ctl::Done(#v)),
                None => parse_quote!(Ctl::Done(())),
            }
        } else {
            match v {
                Some(v) => v,
                None => parse_quote!(()),
            }
        }
    }

    // ---------------------------------------------------------------- blocks
    /// fold a block as a scope: RAII locals declared in it are dropped at its end
    pub fn fold_block_scoped(&mut self, b: Block, pre: Vec<Raii>) -> Block {
        let n_alias = self.env.aliases.len();
        self.env.depth += 1;
        let depth = self.env.depth;
        for mut r in pre {
            r.depth = depth;
            self.env.raii.push(r);
        }
        let mut out: Vec<Stmt> = vec![];
        let n = b.stmts.len();
        for (i, s) in b.stmts.into_iter().enumerate() {
            let is_last = i + 1 == n;
            let line = s.span().start().line;
            if line > 0 {
                let l = proc_macro2::Literal::u32_unsuffixed(line as u32);
                out.push(parse_quote!(__vx_src!(#l);));
            }
            match s {
                Stmt::Expr(e, None) if is_last => {
                    // tail expression: value of the block
                    let e2 = self.fold_temp_scope(e);
                    // a bare RAII local as the value of its block is moved out, not dropped
                    self.block_moved = match path_single_ident(&e2) {
                        Some(n) => self.consume(&n),
                        None => None,
                    };
                    let scoped: Vec<Raii> =
                        self.env.raii.iter().filter(|r| r.depth >= depth).rev().cloned().collect();
                    let exit_ghost = depth == 1 && self.spec.before.contains_key("exit");
                    if diverges(&e2) || (scoped.is_empty() && !exit_ghost) {
                        out.push(Stmt::Expr(e2, None));
                    } else {
                        let mut drops = vec![];
                        if exit_ghost {
                            self.used_keys.insert("before:exit".to_string());
                            drops.push(parse_quote!(__vx_ghost!("before:exit");));
                        }
                        for r in scoped.iter() {
                            drops.extend(self.drop_stmts(r));
                        }
                        out.push(parse_quote!(let __t = #e2;));
                        out.extend(drops);
                        out.push(Stmt::Expr(parse_quote!(__t), None));
                    }
                    self.env.raii.retain(|r| r.depth < depth);
                    self.env.aliases.truncate(n_alias);
                    self.env.depth -= 1;
                    return block_of(out);
                }
                other => {
                    let is_loop = matches!(&other, Stmt::Expr(Expr::While(_) | Expr::Loop(_) | Expr::ForLoop(_), _));
                    let v = self.fold_stmt_multi(other);
                    out.extend(v);
                    if is_loop {
                        // Verus' grammar: a loop body directly followed by a block statement is ambiguous
                        out.push(parse_quote!(();));
                    }
                }
            }
        }
        // no tail: drop scoped RAII unless the block diverges
        let scoped: Vec<Raii> = self.env.raii.iter().filter(|r| r.depth >= depth).rev().cloned().collect();
        let div = match out.last() {
            Some(Stmt::Expr(e, _)) => diverges(e),
            _ => false,
        };
        if !div {
            if depth == 1 && self.spec.before.contains_key("exit") {
                self.used_keys.insert("before:exit".to_string());
                out.push(parse_quote!(__vx_ghost!("before:exit");));
            }
            for r in scoped.iter() {
                let d = self.drop_stmts(r);
                out.extend(d);
            }
        }
        self.env.raii.retain(|r| r.depth < depth);
        self.env.aliases.truncate(n_alias);
        self.env.depth -= 1;
        block_of(out)
    }

    /// an expression that is a temporary scope (statement, let initialiser, match arm, condition)
    fn fold_temp_scope(&mut self, e: Expr) -> Expr {
        let saved = std::mem::take(&mut self.pending_locks);
        let e2 = self.fold_expr(e);
        let locks = std::mem::replace(&mut self.pending_locks, saved);
        if locks.is_empty() {
            return e2;
        }
        if locks.len() > 1 {
            self.unsupported("two lock temporaries in one statement", e2.span());
        }
        let (place, field, checks) = locks[0].clone();
        let kl = self.next_key(&format!("{}.lock", field));
        let mut stmts = vec![];
        stmts.extend(self.pt());
        let ku = self.next_key(&format!("{}.unlock", field));
        stmts.extend(self.ghost_marker("before", &kl));
        if self.u.poisonlocks && checks {
            // `.lock().unwrap()` panics on a poisoned mutex
            if self.ctl {
                let drops = self.unwind_drops();
                stmts.push(parse_quote!(if #place.is_poisoned() { #(#drops)* return Ctl::Unwind; }));
            } else {
                stmts.push(parse_quote!(if #place.is_poisoned() { vx_panic_(); }));
            }
        }
        stmts.push(parse_quote!(#place.lock_();));
        stmts.extend(self.lockinv_marker("acq", &field));
        stmts.extend(self.ghost_marker("after", &kl));
        stmts.push(parse_quote!(let __r = #e2;));
        stmts.extend(self.ghost_marker("before", &ku));
        stmts.extend(self.lockinv_marker("rel", &field));
        stmts.push(parse_quote!(#place.unlock_();));
        stmts.extend(self.ghost_marker("after", &ku));
        stmts.push(Stmt::Expr(parse_quote!(__r), None));
        expr_block(stmts)
    }

    fn bind_alias(&mut self, name: &str, target: Expr) {
        self.env.aliases.push((name.to_string(), target));
    }

    fn unbind(&mut self, name: &str) {
        // a new `let name` shadows an alias
        if let Some(i) = self.env.aliases.iter().rposition(|(n, _)| n == name) {
            self.env.aliases.remove(i);
        }
    }

    fn pat_single_ident(p: &Pat) -> Option<String> {
        match p {
            Pat::Ident(pi) if pi.subpat.is_none() => Some(pi.ident.to_string()),
            Pat::Type(pt) => Self::pat_single_ident(&pt.pat),
            _ => None,
        }
    }

    fn pat_idents(p: &Pat, out: &mut Vec<String>) {
        match p {
            Pat::Ident(pi) => {
                out.push(pi.ident.to_string());
                if let Some((_, sp)) = &pi.subpat {
                    Self::pat_idents(sp, out);
                }
            }
            Pat::Type(pt) => Self::pat_idents(&pt.pat, out),
            Pat::Tuple(t) => t.elems.iter().for_each(|e| Self::pat_idents(e, out)),
            Pat::TupleStruct(t) => t.elems.iter().for_each(|e| Self::pat_idents(e, out)),
            Pat::Struct(s) => s.fields.iter().for_each(|f| Self::pat_idents(&f.pat, out)),
            Pat::Reference(r) => Self::pat_idents(&r.pat, out),
            Pat::Or(o) => o.cases.iter().for_each(|e| Self::pat_idents(e, out)),
            Pat::Paren(p) => Self::pat_idents(&p.pat, out),
            Pat::Slice(s) => s.elems.iter().for_each(|e| Self::pat_idents(e, out)),
            _ => {}
        }
    }

    fn fold_stmt_multi(&mut self, s: Stmt) -> Vec<Stmt> {
        match s {
            Stmt::Local(l) => self.fold_local_multi(l),
            Stmt::Expr(e, semi) => {
                let e2 = self.fold_temp_scope(e);
                // `drop(x)` may have become an empty block
                vec![Stmt::Expr(e2, semi)]
            }
            Stmt::Macro(m) => {
                let name = path_to_string(&m.mac.path);
                if name.starts_with("tracing") || name == "debug" || name == "trace" || name == "info" {
                    vec![]
                } else {
                    // statement macro treated as expression macro
                    let e = Expr::Macro(ExprMacro { attrs: vec![], mac: m.mac });
                    let e2 = self.fold_temp_scope(e);
                    vec![Stmt::Expr(e2, m.semi_token)]
                }
            }
            Stmt::Item(Item::Use(_)) => vec![],
            Stmt::Item(i) => {
                self.unsupported("nested item", i.span());
                vec![]
            }
        }
    }

    fn fold_local_multi(&mut self, mut l: Local) -> Vec<Stmt> {
        l.attrs.clear();
        let name = Self::pat_single_ident(&l.pat);
        let init = match l.init.take() {
            None => {
                if let Some(n) = &name {
                    self.unbind(n);
                }
                return vec![Stmt::Local(l)];
            }
            Some(i) => i,
        };
        if init.diverge.is_some() {
            self.unsupported("let-else", l.span());
        }
        let init_expr = *init.expr;

        // R1: `let x = P.as_ref();` / `let x = &P;` with P a field path: alias
        if let Some(n) = &name {
            let alias_target = match peel_paren(&init_expr) {
                Expr::MethodCall(m) if m.method == "as_ref" && m.args.is_empty() && last_field(&m.receiver).is_some() => {
                    Some((*m.receiver).clone())
                }
                _ => None,
            };
            // `let x = &self.a.b;` (a shared reference to a field path of `self`, never `&mut`, `let` not `let mut`): alias
            let alias_target = alias_target.or_else(|| match (peel_paren(&init_expr), &l.pat) {
                (Expr::Reference(r), Pat::Ident(pi)) if r.mutability.is_none() && pi.mutability.is_none() && pi.by_ref.is_none() && last_field(&r.expr).is_some() && expr_to_string(&r.expr).starts_with("self") => Some((*r.expr).clone()),
                _ => None,
            });
            let alias_target = alias_target.or_else(|| match peel_paren(&init_expr) {
                Expr::MethodCall(m) if m.method == "clone" && m.args.is_empty() => match last_field(&m.receiver) {
                    Some(f) if self.t.arc_fields.contains(&f) => Some((*m.receiver).clone()),
                    _ => None,
                },
                Expr::Call(c) if c.args.len() == 1 => {
                    let is_arc_clone = matches!(&*c.func, Expr::Path(p) if path_to_string(&p.path) == "Arc::clone");
                    match (is_arc_clone, peel_paren(&c.args[0])) {
                        (true, Expr::Reference(r)) => match last_field(&r.expr) {
                            Some(f) if self.t.arc_fields.contains(&f) => Some((*r.expr).clone()),
                            _ => None,
                        },
                        _ => None,
                    }
                }
                _ => None,
            });
            // `let g = e.into_inner();` (a `dropcall` method) with `e` already an alias: `g` is the same place
            let alias_target = alias_target.or_else(|| match peel_paren(&init_expr) {
                Expr::MethodCall(m) if m.args.is_empty() && self.u.dropcall.contains(&m.method.to_string()) => match path_single_ident(&m.receiver) {
                    Some(r) if self.env.aliases.iter().any(|(a, _)| *a == r) => Some((*m.receiver).clone()),
                    _ => None,
                },
                _ => None,
            });
            if let Some(t) = alias_target {
                let t2 = self.fold_expr(t);
                self.bind_alias(n, t2);
                return vec![];
            }
            // `let g = X.lock().unwrap_or_else(|e| { STMTS; e.into_inner() })` on a poisonable mutex: the lock is taken either way;
            // when the mutex is poisoned STMTS run (with `e` naming the guarded data), then `g` is the guard
            if self.u.poisonlocks {
                if let Expr::MethodCall(uo) = peel_paren(&init_expr) {
                    if uo.method == "unwrap_or_else" && uo.args.len() == 1 {
                        if let (Expr::MethodCall(lk), Expr::Closure(cl)) = (peel_paren(&uo.receiver), &uo.args[0]) {
                            let mfield = last_field(&lk.receiver).filter(|f| self.t.mutex_fields.contains(f)).or_else(|| path_single_ident(&lk.receiver).filter(|n| self.u.mutexlocals.contains(n)));
                            let pname = cl.inputs.first().and_then(|p| Self::pat_single_ident(p));
                            if lk.method == "lock" && lk.args.is_empty() && mfield.is_some() && cl.inputs.len() == 1 && pname.is_some() {
                                let (field, pname) = (mfield.unwrap(), pname.unwrap());
                                let (stmts_src, tail): (Vec<Stmt>, Option<Expr>) = match &*cl.body {
                                    Expr::Block(b) => {
                                        let mut st = b.block.stmts.clone();
                                        match st.pop() {
                                            Some(Stmt::Expr(e, None)) => (st, Some(e)),
                                            _ => (vec![], None),
                                        }
                                    }
                                    other => (vec![], Some(other.clone())),
                                };
                                let tail_ok = matches!(tail.as_ref().map(peel_paren), Some(Expr::MethodCall(t)) if t.method == "into_inner" && path_single_ident(&t.receiver).as_deref() == Some(pname.as_str()));
                                if tail_ok {
                                    let place = self.fold_expr((*lk.receiver).clone());
                                    let kl = self.next_key(&format!("{}.lock", field));
                                    let mut stmts = vec![];
                                    stmts.extend(self.pt());
                                    stmts.extend(self.ghost_marker("before", &kl));
                                    stmts.push(parse_quote!(#place.lock_();));
                                    let data: Expr = parse_quote!(#place.data);
                                    let n_alias = self.env.aliases.len();
                                    self.bind_alias(&pname, data.clone());
                                    let rec: Vec<Stmt> = stmts_src.into_iter().flat_map(|st| self.fold_stmt_multi(st)).collect();
                                    self.env.aliases.truncate(n_alias);
                                    stmts.push(parse_quote!(if #place.is_poisoned() { #(#rec)* }));
                                    stmts.extend(self.ghost_marker("after", &kl));
                                    self.bind_alias(n, data);
                                    let depth = self.env.depth;
                                    self.env.raii.push(Raii { name: n.clone(), kind: RaiiKind::Lock { place, field }, depth });
                                    return stmts;
                                }
                            }
                        }
                    }
                }
            }
            if self.u.poisonlocks {
                if let Some(p) = is_lock_anyway(&init_expr) {
                    let mfield = last_field(p).filter(|f| self.t.mutex_fields.contains(f)).or_else(|| path_single_ident(p).filter(|n| self.u.mutexlocals.contains(n)));
                    if let Some(field) = mfield {
                        let place = self.fold_expr(p.clone());
                        let kl = self.next_key(&format!("{}.lock", field));
                        let mut stmts = vec![];
                        stmts.extend(self.pt());
                        stmts.extend(self.ghost_marker("before", &kl));
                        stmts.push(parse_quote!(#place.lock_();));
                        stmts.extend(self.ghost_marker("after", &kl));
                        let data: Expr = parse_quote!(#place.data);
                        self.bind_alias(n, data);
                        let depth = self.env.depth;
                        self.env.raii.push(Raii { name: n.clone(), kind: RaiiKind::Lock { place, field }, depth });
                        return stmts;
                    }
                }
            }
            // R1: guard binding
            if let Some(p) = is_lock_unwrap(&init_expr) {
                let mfield = last_field(p).filter(|f| self.t.mutex_fields.contains(f)).or_else(|| path_single_ident(p).filter(|n| self.u.mutexlocals.contains(n)));
                if let Some(field) = mfield {
                    {
                        let place = self.fold_expr(p.clone());
                        let kl = self.next_key(&format!("{}.lock", field));
                        let mut stmts = vec![];
                        stmts.extend(self.pt());
                        stmts.extend(self.ghost_marker("before", &kl));
                        if self.u.poisonlocks {
                            // `.lock().unwrap()` panics on a poisoned mutex
                            if self.ctl {
                                let drops = self.unwind_drops();
                                stmts.push(parse_quote!(if #place.is_poisoned() { #(#drops)* return Ctl::Unwind; }));
                            } else {
                                // a function that must not panic: the mutex has to be provably unpoisoned here
                                stmts.push(parse_quote!(if #place.is_poisoned() { vx_panic_(); }));
                            }
                        }
                        stmts.push(parse_quote!(#place.lock_();));
                        stmts.extend(self.lockinv_marker("acq", &field));
                        stmts.extend(self.ghost_marker("after", &kl));
                        let data: Expr = parse_quote!(#place.data);
                        self.bind_alias(n, data);
                        let depth = self.env.depth;
                        self.env.raii.push(Raii {
                            name: n.clone(),
                            kind: RaiiKind::Lock { place, field },
                            depth,
                        });
                        return stmts;
                    }
                }
            }
        }

        // `let x = self.a.b.c;` (immutable, a pure field read): remembered, so that loops of a function proved with loop isolation
        // get the invariant `x == self.a.b.c` (the fact is otherwise lost inside the loop; see emit)
        if let (Some(n), Pat::Ident(pi)) = (&name, &l.pat) {
            fn pure_self_path(e: &Expr) -> bool {
                match e {
                    Expr::Path(p) => p.path.is_ident("self"),
                    Expr::Field(f) => pure_self_path(&f.base),
                    Expr::Paren(p) => pure_self_path(&p.expr),
                    _ => false,
                }
            }
            if pi.mutability.is_none() && pi.by_ref.is_none() && matches!(peel_paren(&init_expr), Expr::Field(_)) && pure_self_path(peel_paren(&init_expr)) && self.env.depth <= 1 {
                let folded = self.fold_expr_quiet(init_expr.clone());
                self.hoisted.push((n.clone(), expr_to_string(&folded).replace(" . ", ".")));
            }
        }
        // `let NEW = OLD;` with OLD a tracked RAII local: the value moves, the obligation to drop it moves with it
        if let (Some(n), Some(old)) = (&name, path_single_ident(peel_paren(&init_expr))) {
            if let Some(i) = self.find_raii(&old) {
                if !matches!(self.env.raii[i].kind, RaiiKind::Lock { .. }) && *n != old {
                    let mut r = self.env.raii.remove(i);
                    r.name = n.clone();
                    r.depth = self.env.depth;
                    let e2 = self.fold_expr(init_expr.clone());
                    self.unbind(n);
                    let pat = self.fold_pat(l.pat.clone());
                    l.pat = pat;
                    l.init = Some(LocalInit { eq_token: init.eq_token, expr: Box::new(e2), diverge: None });
                    self.env.raii.push(r);
                    return vec![Stmt::Local(l)];
                }
            }
        }

        // RAII recognition by initialiser (through the blocks an inlined helper leaves: `{ ..; VALUE }`)
        let mut new_raii: Option<RaiiKind> = None;
        if let Some(_n) = &name {
            match value_expr(&init_expr) {
                Expr::Struct(s) => {
                    let ty = s.path.segments.last().unwrap().ident.to_string();
                    if let Some(br) = self.u.backrefs.iter().find(|b| b.ty == ty) {
                        if self.t.drop_types.contains(&ty) {
                            // pool expression from the erased field
                            for f in s.fields.iter() {
                                if let Member::Named(id) = &f.member {
                                    if *id == br.field {
                                        let pe = match peel_paren(&f.expr) {
                                            Expr::Reference(r) => (*r.expr).clone(),
                                            other => other.clone(),
                                        };
                                        let pe = self.fold_expr(pe);
                                        if pe.to_token_stream().to_string().contains("__h") {
                                            self.unsupported("a guard whose pool reference is a local of an inlined helper", l.span());
                                        }
                                        new_raii = Some(RaiiKind::Backref { pool: pe });
                                    }
                                }
                            }
                        }
                    }
                }
                Expr::Call(c) => {
                    if let Expr::Path(p) = &*c.func {
                        if p.path.segments.last().unwrap().ident == "DropGuard" && c.args.len() == 1 {
                            if let Expr::Closure(cl) = &c.args[0] {
                                let body = match &*cl.body {
                                    Expr::Block(b) => b.block.clone(),
                                    other => block_of(vec![stmt_expr(other.clone())]),
                                };
                                new_raii = Some(RaiiKind::Guard { body });
                            }
                        }
                    }
                }
                _ => {}
            }
            if new_raii.is_none() {
                if let Some((sem, field)) = find_acquire(&init_expr) {
                    if self.t.prim_fields.contains(&field) {
                        let sem2 = self.fold_expr_quiet(sem);
                        new_raii = Some(RaiiKind::Permit { sem: sem2, field, wrapped: !acquire_unwrapped(&init_expr) });
                    }
                }
            }
        }

        let is_guard = matches!(new_raii, Some(RaiiKind::Guard { .. }));
        self.block_moved = None;
        let e2 = if is_guard {
            parse_quote!(DropGuard::new_())
        } else {
            self.fold_temp_scope(init_expr.clone())
        };
        // `let x = { ..; guard }`: the block handed a tracked value out, `x` holds it now
        if new_raii.is_none() && matches!(peel_paren(&init_expr), Expr::Block(_) | Expr::Match(_)) {
            if let Some(r) = self.block_moved.take() {
                if !matches!(r.kind, RaiiKind::Lock { .. }) {
                    new_raii = Some(r.kind);
                }
            }
        }
        self.block_moved = None;
        let mut names = vec![];
        Self::pat_idents(&l.pat, &mut names);
        for n in names.iter() {
            self.unbind(n);
        }
        let mut pat = self.fold_pat(l.pat.clone());
        // `let mut i = 0;` of a local the overlay talks about (a loop counter): an index, `usize` — stated so that a loop invariant
        // can mention it before Rust's inference has met its first use as an index
        if let (Pat::Ident(pi), Expr::Lit(ExprLit { lit: Lit::Int(li), .. })) = (&pat, peel_paren(&init_expr)) {
            let n = pi.ident.to_string();
            let named = self.spec.locals.iter().any(|(a, _)| *a == n) || self.local_ren.iter().any(|(_, actual)| *actual == n);
            if named && li.suffix().is_empty() {
                let inner = pat.clone();
                let ty: Type = parse_quote!(usize);
                pat = Pat::Type(PatType { attrs: vec![], pat: Box::new(inner), colon_token: Default::default(), ty: Box::new(ty) });
            }
        }
        // `let v = Vec::new()` / `VecDeque::with_capacity(n)`: say the container type, so that specifications can talk about `v@`
        // before the first `push` fixes the element type
        if let Pat::Ident(_) = &pat {
            if let Expr::Call(c) = peel_paren(&init_expr) {
                if let Expr::Path(p) = &*c.func {
                    let segs: Vec<String> = p.path.segments.iter().map(|s| s.ident.to_string()).collect();
                    if segs.len() == 2 && (segs[0] == "Vec" || segs[0] == "VecDeque") && (segs[1] == "new" || segs[1] == "with_capacity") && p.path.segments.iter().all(|s| s.arguments.is_empty()) {
                        let tyid = ident(&segs[0]);
                        let inner = pat.clone();
                        let ty: Type = parse_quote!(#tyid<_>);
                        pat = Pat::Type(PatType { attrs: vec![], pat: Box::new(inner), colon_token: Default::default(), ty: Box::new(ty) });
                    }
                }
            }
        }
        l.pat = pat;
        l.init = Some(LocalInit { eq_token: init.eq_token, expr: Box::new(e2), diverge: None });
        if let (Some(n), Some(kind)) = (name, new_raii) {
            let depth = self.env.depth;
            self.env.raii.push(Raii { name: n, kind, depth });
        }
        vec![Stmt::Local(l)]
    }

    /// fold an expression without counting keys (used for place expressions duplicated elsewhere)
    fn fold_expr_quiet(&mut self, e: Expr) -> Expr {
        let saved = self.counters.clone();
        let saved_locks = self.pending_locks.clone();
        let r = self.fold_expr(e);
        self.counters = saved;
        self.pending_locks = saved_locks;
        r
    }

    // ---------------------------------------------------------------- expressions
    fn do_await(&mut self, a: ExprAwait) -> Expr {
        let sp = a.span();
        let base = *a.base;
        // classify
        let mut internal = false;
        let mut ext_call = false;
        match peel_paren(&base) {
            Expr::MethodCall(m) => {
                let n = m.method.to_string();
                if self.t.internal_async.contains(&n) {
                    internal = true;
                } else if self.u.extasync.contains(&n) {
                    ext_call = true;
                }
            }
            Expr::Call(c) => {
                if let Expr::Path(p) = &*c.func {
                    let n = p.path.segments.last().unwrap().ident.to_string();
                    // a path into another crate (`tokio::task::spawn_blocking`) is not one of the unit's own functions, whatever its last segment
                    let first = p.path.segments.first().unwrap().ident.to_string();
                    let local_path = p.path.segments.len() == 1 || matches!(first.as_str(), "Self" | "self" | "crate" | "super");
                    if local_path && self.t.internal_async.contains(&n) {
                        internal = true;
                    } else if self.u.extasync.contains(&n) {
                        ext_call = true;
                    } else if p.path.segments.len() == 1 && self.u.localcall.contains(&n) {
                        ext_call = true; // becomes NAME.call_async_(..)
                    }
                }
            }
            _ => {}
        }
        if !self.ctl {
            self.unsupported(".await in a non-async function", sp);
        }
        // `X.interact(|p| BODY).await` (SyncWrapper): the closure runs to completion on the wrapped value while the caller
        // awaits; thread placement is not modelled (C14).  ⇒  begin (may fail / unwind), run BODY inline, Ok(result)
        if let Expr::MethodCall(m) = peel_paren(&base) {
            if self.u.inlinecall.iter().any(|n| m.method == n) && m.args.len() == 1 {
                if let Expr::Closure(cl) = &m.args[0] {
                    if cl.inputs.len() == 1 {
                        let pat = match &cl.inputs[0] {
                            Pat::Type(pt) => (*pt.pat).clone(),
                            other => other.clone(),
                        };
                        let key = self.next_key("await");
                        let recv = self.fold_expr((*m.receiver).clone());
                        let begin = format_ident!("{}_begin_", m.method);
                        let target = format_ident!("{}_target_", m.method);
                        let drops = self.all_drops();
                        let saved = self.env.clone();
                        let mut names = vec![];
                        Self::pat_idents(&pat, &mut names);
                        for n in names.iter() {
                            self.unbind(n);
                        }
                        let body = self.fold_expr((*cl.body).clone());
                        self.env.aliases = saved.aliases;
                        let pat = self.fold_pat(pat);
                        let after = self.ghost_marker("after", &key);
                        let wrap: Expr = match after {
                            Some(g) => parse_quote!({ let __r = Ok(__b); #g __r }),
                            None => parse_quote!(Ok(__b)),
                        };
                        return parse_quote!(match #recv.#begin() {
                            Ctl::Unwind => { #(#drops)* return Ctl::Unwind; }
                            Ctl::Done(Err(__e)) => Err(__e),
                            Ctl::Done(Ok(())) => { let #pat = #recv.#target(); let __b = #body; #wrap }
                        });
                    }
                }
            }
        }
        let key = self.next_key("await");
        let callee: Expr = if internal || ext_call {
            // mark local closure calls as async
            let b = match base {
                Expr::Call(mut c) => {
                    let mut is_local = false;
                    if let Expr::Path(p) = &*c.func {
                        if p.path.segments.len() == 1 && self.u.localcall.contains(&p.path.segments[0].ident.to_string()) {
                            is_local = true;
                        }
                    }
                    if is_local {
                        let f = (*c.func).clone();
                        let f2 = self.fold_expr(f);
                        let args: Vec<Expr> = c.args.into_iter().map(|a| self.fold_expr(a)).collect();
                        parse_quote!(#f2.call_async_(#(#args),*))
                    } else {
                        c.attrs.clear();
                        self.fold_expr(Expr::Call(c))
                    }
                }
                other => self.fold_expr(other),
            };
            b
        } else {
            let b = self.fold_expr(base);
            // by-value use of a future local
            if let Some(n) = path_single_ident(&b) {
                self.consume(&n);
            }
            parse_quote!(#b.await_())
        };
        let mut pre: Vec<Stmt> = vec![];
        if !internal {
            // suspension point on an external future: the environment runs
            self.cur_key = key.clone();
            pre.extend(self.pt());
        }
        pre.extend(self.ghost_marker("before", &key));
        let drops = self.all_drops();
        let after = self.ghost_marker("after", &key);
        let ok_arm: Expr = match after {
            Some(g) => parse_quote!({ let __r = __v; #g __r }),
            None => parse_quote!(__v),
        };
        let m: Expr = parse_quote!(match #callee {
            Ctl::Done(__v) => #ok_arm,
            Ctl::Unwind => { #(#drops)* return Ctl::Unwind; }
        });
        if pre.is_empty() {
            m
        } else {
            pre.push(Stmt::Expr(m, None));
            expr_block(pre)
        }
    }

    fn do_try(&mut self, t: ExprTry) -> Expr {
        let inner = self.fold_expr(*t.expr);
        if !self.ctl && self.env.raii.is_empty() && !self.spec.attrs.iter().any(|a| a == "tryinto") {
            return Expr::Try(ExprTry { attrs: vec![], expr: Box::new(inner), question_token: t.question_token });
        }
        let drops = self.all_drops();
        if self.ret_option {
            let ret = self.wrap_ret(Some(parse_quote!(None)));
            return parse_quote!(match #inner {
                Some(__v) => __v,
                None => { #(#drops)* return #ret; }
            });
        }
        let conv: Expr = if self.spec.attrs.iter().any(|a| a == "tryinto") { parse_quote!(Err(vx_into(__e))) } else { parse_quote!(Err(__e)) };
        let ret = self.wrap_ret(Some(conv));
        parse_quote!(match #inner {
            Ok(__v) => __v,
            Err(__e) => { #(#drops)* return #ret; }
        })
    }

    fn value_consumes(&mut self, e: &Expr) {
        if let Some(n) = path_single_ident(e) {
            self.consume(&n);
        }
    }

    fn do_return(&mut self, r: ExprReturn) -> Expr {
        let v = r.expr.map(|e| self.fold_expr(*e));
        if let Some(v) = &v {
            self.value_consumes(v);
        }
        let drops = self.all_drops();
        if drops.is_empty() {
            let w = self.wrap_ret(v.clone());
            if v.is_none() && !self.ctl {
                return parse_quote!(return);
            }
            return parse_quote!(return #w);
        }
        match v {
            Some(v) => {
                let w = self.wrap_ret(Some(parse_quote!(__t)));
                parse_quote!({ let __t = #v; #(#drops)* return #w; })
            }
            None => {
                if self.ctl {
                    parse_quote!({ #(#drops)* return Ctl::Done(()); })
                } else {
                    parse_quote!({ #(#drops)* return; })
                }
            }
        }
    }

    fn do_break(&mut self, b: ExprBreak) -> Expr {
        if b.label.is_some() {
            self.unsupported("labelled break", b.span());
        }
        match b.expr {
            Some(v) => {
                let v2 = self.fold_expr(*v);
                match self.brk_stack.last().cloned().flatten() {
                    Some(var) => parse_quote!({ #var = Some(#v2); break; }),
                    None => {
                        self.unsupported("break with value outside a hoisted loop", Span::call_site());
                        parse_quote!(break)
                    }
                }
            }
            None => parse_quote!(break),
        }
    }

    fn backref_param_for_receiver(&self, recv: &Expr) -> Option<Expr> {
        if let Some(n) = path_single_ident(recv) {
            if let Some(i) = self.find_raii(&n) {
                if let RaiiKind::Backref { pool } = &self.env.raii[i].kind {
                    return Some(pool.clone());
                }
            }
        }
        None
    }

    fn do_method(&mut self, m: ExprMethodCall) -> Expr {
        let sp = m.span();
        let method = m.method.to_string();

        // `A.extend(B.drain(..))` moves every element of B to the back of A in order and leaves B empty: that is `A.append(&mut B)`
        if method == "extend" && m.args.len() == 1 {
            if let Expr::MethodCall(d) = peel_paren(&m.args[0]) {
                if d.method == "drain" && d.args.len() == 1 && matches!(&d.args[0], Expr::Range(r) if r.start.is_none() && r.end.is_none()) {
                    let a = (*m.receiver).clone();
                    let b = (*d.receiver).clone();
                    let app: ExprMethodCall = parse_quote!(#a.append(&mut #b));
                    return self.do_method(app);
                }
            }
        }
        // `X.drain(..).for_each(drop)` destroys every element in order and leaves X empty: that is `X.clear()`
        if method == "for_each" && m.args.len() == 1 {
            let is_drop = matches!(&m.args[0], Expr::Path(p) if { let n = path_to_string(&p.path); n == "drop" || n == "mem::drop" || n == "std::mem::drop" });
            if is_drop {
                if let Expr::MethodCall(d) = peel_paren(&m.receiver) {
                    if d.method == "drain" && d.args.len() == 1 && matches!(&d.args[0], Expr::Range(r) if r.start.is_none() && r.end.is_none()) {
                        let recv = (*d.receiver).clone();
                        let clear: ExprMethodCall = parse_quote!(#recv.clear());
                        return self.do_method(clear);
                    }
                }
            }
        }

        // R1: lock temporaries
        {
            let me = Expr::MethodCall(m.clone());
            let hit = match is_lock_unwrap(&me) {
                Some(p) => Some((p.clone(), true)),
                None => if self.u.poisonlocks { is_lock_anyway(&me).map(|p| (p.clone(), false)) } else { None },
            };
            if let Some((p, checks)) = hit {
                let mfield = last_field(&p).filter(|f| self.t.mutex_fields.contains(f)).or_else(|| path_single_ident(&p).filter(|n| self.u.mutexlocals.contains(n)));
                if let Some(field) = mfield {
                    let place = self.fold_expr(p.clone());
                    self.pending_locks.push((place.clone(), field, checks));
                    return parse_quote!(#place.data);
                }
            }
        }
        // `X.map_err(|PAT| BODY)`  →  `match X { Ok(v) => Ok(v), Err(PAT) => Err(BODY) }`  (beta reduction; Verus knows
        // nothing about a closure literal without an explicit spec)
        if method == "map_err" && m.args.len() == 1 {
            if let Expr::Closure(cl) = &m.args[0] {
                if cl.inputs.len() == 1 && cl.asyncness.is_none() {
                    let pat = match &cl.inputs[0] {
                        Pat::Type(pt) => (*pt.pat).clone(),
                        other => other.clone(),
                    };
                    let recv = self.fold_expr((*m.receiver).clone());
                    let saved = self.env.clone();
                    let mut names = vec![];
                    Self::pat_idents(&pat, &mut names);
                    for n in names.iter() {
                        self.unbind(n);
                    }
                    let body = self.fold_expr((*cl.body).clone());
                    self.env = saved;
                    let pat = self.fold_pat(pat);
                    return parse_quote!(match #recv { Ok(__v) => Ok(__v), Err(#pat) => Err(#body) });
                }
            }
        }
        // `X.and_then(|p| B)` on a Result → `match X { Ok(p) => B, Err(e) => Err(e) }`
        if method == "and_then" && m.args.len() == 1 {
            if let Expr::Closure(cl) = &m.args[0] {
                if cl.inputs.len() == 1 {
                    let pat = match &cl.inputs[0] {
                        Pat::Type(pt) => (*pt.pat).clone(),
                        other => other.clone(),
                    };
                    let recv = self.fold_expr((*m.receiver).clone());
                    let saved = self.env.clone();
                    let mut names = vec![];
                    Self::pat_idents(&pat, &mut names);
                    for n in names.iter() {
                        self.unbind(n);
                    }
                    let body = self.fold_expr((*cl.body).clone());
                    self.env = saved;
                    let pat = self.fold_pat(pat);
                    return parse_quote!(match #recv { Ok(#pat) => #body, Err(__e) => Err(__e) });
                }
            }
        }
        // `X.filter(|p| B)` → `match X { Some(p) if B => Some(p), _ => None }`; `X.is_some_and(|p| B)` → `match X { Some(p) => B, None => false }`
        if (method == "filter" || method == "is_some_and") && m.args.len() == 1 {
            if let Expr::Closure(cl) = &m.args[0] {
                if cl.inputs.len() == 1 {
                    let pat = match &cl.inputs[0] {
                        Pat::Type(pt) => (*pt.pat).clone(),
                        other => other.clone(),
                    };
                    let recv = self.fold_expr((*m.receiver).clone());
                    let saved = self.env.clone();
                    let mut names = vec![];
                    Self::pat_idents(&pat, &mut names);
                    for n in names.iter() {
                        self.unbind(n);
                    }
                    let body = self.fold_expr((*cl.body).clone());
                    self.env = saved;
                    let pat = self.fold_pat(pat);
                    if method == "filter" {
                        // the closure of `filter` receives a reference to the payload
                        return parse_quote!(match #recv { Some(__p) if { let #pat = &__p; #body } => Some(__p), _ => None });
                    }
                    return parse_quote!(match #recv { Some(#pat) => #body, None => false });
                }
            }
        }
        // `X.iter().map(|p| B).collect()` → the loop that std's adapters run: one push per element, in order
        if method == "collect" && m.args.is_empty() {
            if let Expr::MethodCall(mm) = peel_paren(&m.receiver) {
                if mm.method == "map" && mm.args.len() == 1 {
                    if let (Expr::Closure(cl), Expr::MethodCall(it)) = (&mm.args[0], peel_paren(&mm.receiver)) {
                        if it.method == "iter" && it.args.is_empty() && cl.inputs.len() == 1 {
                            let pat = match &cl.inputs[0] {
                                Pat::Type(pt) => (*pt.pat).clone(),
                                other => other.clone(),
                            };
                            let marker = self.loop_marker(format!("collect {}", expr_to_string(&it.receiver)));
                            let idx = format_ident!("__k{}", self.cur_loop);
                            let acc = format_ident!("__c{}", self.cur_loop);
                            let recv = self.fold_expr((*it.receiver).clone());
                            let saved = self.env.clone();
                            let body = self.fold_expr((*cl.body).clone());
                            self.env = saved;
                            let pat = self.fold_pat(pat);
                            let accty: Type = match self.spec.loops.get(&(self.cur_loop)).and_then(|l| l.collects.clone()) {
                                Some(t) => syn::parse_str(&t).unwrap_or_else(|_| parse_quote!(Vec<_>)),
                                None => parse_quote!(Vec<_>),
                            };
                            return parse_quote!({
                                let mut #acc: #accty = Vec::new();
                                let mut #idx: usize = 0;
                                while #idx < #recv.len() {
                                    #marker
                                    let #pat = &#recv[#idx];
                                    #acc.push(#body);
                                    #idx += 1;
                                }
                                #acc
                            });
                        }
                    }
                }
            }
        }
        // `X.map(path::to::function)` in a unit whose closure-maps are all on Options (`optionmap`): apply the function
        if method == "map" && m.args.len() == 1 && self.u.optionmap && !self.u.resultmap {
            if let Expr::Path(p) = &m.args[0] {
                let n = path_to_string(&p.path);
                let is_drop = n == "drop" || n == "mem::drop" || n == "std::mem::drop";
                if !is_drop && !self.t.backparam_fns.contains_key(&n) && !self.u.argcall.iter().any(|(mm, a, _)| mm == "map" && *a == n) {
                    let recv = self.fold_expr((*m.receiver).clone());
                    let f = self.fold_expr(m.args[0].clone());
                    return parse_quote!(match #recv { Some(__v) => Some(#f(__v)), None => None });
                }
            }
        }
        // `X.map(drop)`: the value is destroyed, the shape stays
        if method == "map" && m.args.len() == 1 && matches!(&m.args[0], Expr::Path(p) if { let n = path_to_string(&p.path); n == "drop" || n == "mem::drop" || n == "std::mem::drop" }) {
            let head = annotated_block_head(&m.receiver);
            let recv = self.fold_expr((*m.receiver).clone());
            if self.u.resultmap || head.as_deref() == Some("Result") {
                return parse_quote!(match #recv { Ok(_) => Ok(()), Err(__e) => Err(__e) });
            }
            if self.u.optionmap || head.as_deref() == Some("Option") {
                return parse_quote!(match #recv { Some(_) => Some(()), None => None });
            }
            self.unsupported("`.map(drop)` on a value whose shape (Option / Result) the unit does not declare", sp);
        }
        // `X.map(|p| B)` in a unit that declares `resultmap` (every closure-`map` of the unit is on a Result), or on the block an
        // inlined helper leaves, whose declared return type says `Result` / `Option`
        let recv_head = annotated_block_head(&m.receiver).or_else(|| match peel_paren(&m.receiver) {
            // `self.f(..).map(..)` with `f` a function under contract: its declared return type
            Expr::MethodCall(mc) if matches!(&*mc.receiver, Expr::Path(p) if p.path.is_ident("self")) => self.t.fn_ret_head.get(&mc.method.to_string()).cloned(),
            _ => None,
        });
        if method == "map" && m.args.len() == 1 && (self.u.resultmap || recv_head.as_deref() == Some("Result")) && recv_head.as_deref() != Some("Option") {
            if let Expr::Closure(cl) = &m.args[0] {
                if cl.inputs.len() == 1 {
                    let pat = match &cl.inputs[0] {
                        Pat::Type(pt) => (*pt.pat).clone(),
                        other => other.clone(),
                    };
                    let recv = self.fold_expr((*m.receiver).clone());
                    let saved = self.env.clone();
                    let body = self.fold_expr((*cl.body).clone());
                    self.env = saved;
                    let pat = self.fold_pat(pat);
                    return parse_quote!(match #recv { Ok(#pat) => Ok(#body), Err(__e) => Err(__e) });
                }
            }
        }
        // `X.map(|p| B)` in a unit that declares `optionmap` (every closure-`map` of the unit is on an Option)
        if method == "map" && m.args.len() == 1 && (self.u.optionmap || recv_head.as_deref() == Some("Option")) {
            if let Expr::Closure(cl) = &m.args[0] {
                if cl.inputs.len() == 1 {
                    let pat = match &cl.inputs[0] {
                        Pat::Type(pt) => (*pt.pat).clone(),
                        other => other.clone(),
                    };
                    let recv = self.fold_expr((*m.receiver).clone());
                    let saved = self.env.clone();
                    let body = self.fold_expr((*cl.body).clone());
                    self.env = saved;
                    let pat = self.fold_pat(pat);
                    return parse_quote!(match #recv { Some(#pat) => Some(#body), None => None });
                }
            }
        }
        if method == "unwrap_or_default" && m.args.is_empty() {
            let recv = self.fold_expr((*m.receiver).clone());
            return parse_quote!(match #recv { Some(__v) => __v, None => Default::default() });
        }
        // `X.map_err(Into::into)`  →  match with the modelled conversion `vx_into` (spec function `into_spec`)
        if method == "map_err" && m.args.len() == 1 {
            if let Expr::Path(p) = &m.args[0] {
                if path_to_string(&p.path) == "Into::into" {
                    let recv = self.fold_expr((*m.receiver).clone());
                    return parse_quote!(match #recv { Ok(__v) => Ok(__v), Err(__e) => Err(vx_into(__e)) });
                }
                // a constructor / function path as the mapper: apply it (Verus has no constructor-as-function values)
                let recv = self.fold_expr((*m.receiver).clone());
                let f = self.fold_expr(m.args[0].clone());
                return parse_quote!(match #recv { Ok(__v) => Ok(__v), Err(__e) => Err(#f(__e)) });
            }
        }
        // `X.map(Type::f)` on a Result where `Type::f` is a function of a back-referencing type (R6) →
        // `match X { Ok(v) => Ok(Type::f(v, &mut POOL)), Err(e) => Err(e) }`
        if method == "map" && m.args.len() == 1 {
            if let Expr::Path(p) = &m.args[0] {
                let name = path_to_string(&p.path);
                if self.t.backparam_fns.contains_key(&name) {
                    let recv = self.fold_expr((*m.receiver).clone());
                    let f = self.fold_expr(m.args[0].clone());
                    match self.pool.clone() {
                        Some(pool) => return parse_quote!(match #recv { Ok(__v) => Ok(#f(__v, &mut #pool)), Err(__e) => Err(__e) }),
                        None => self.unsupported("mapper of a back-referencing type in a function without pool path", sp),
                    }
                }
            }
        }
        // dropcall (e.g. `.into()` wrapper conversion, A10)
        if m.args.is_empty() && (self.u.dropcall.contains(&method) || self.spec.dropcalls.contains(&method)) {
            return self.fold_expr(*m.receiver);
        }
        // upgrade outside the `if let` pattern
        if method == "upgrade" {
            self.unsupported("Weak::upgrade outside `if let Some(x) = ..upgrade()`", sp);
        }

        // `X.m(PATH)` with a function path as argument → `f(X)` (e.g. `.map(ToOwned::to_owned)`)
        if m.args.len() == 1 {
            if let Expr::Path(ap) = &m.args[0] {
                let an = path_to_string(&ap.path);
                if let Some((_, _, to)) = self.u.argcall.iter().find(|(mm, a, _)| *mm == method && *a == an).cloned() {
                    let recv = self.fold_expr((*m.receiver).clone());
                    let f = ident(&to);
                    return parse_quote!(#f(#recv));
                }
            }
        }
        // `V.retain(|p| KEEP)` on a Vec → the equivalent explicit loop (std's definition: keeps order, removes the others)
        if method == "retain" && m.args.len() == 1 {
            if let Expr::Closure(cl) = &m.args[0] {
                if cl.inputs.len() == 1 {
                    let pat = match &cl.inputs[0] {
                        Pat::Type(pt) => (*pt.pat).clone(),
                        other => other.clone(),
                    };
                    let marker = self.loop_marker(format!("retain {}", expr_to_string(&m.receiver)));
                    let idx = format_ident!("__k{}", self.cur_loop);
                    let recv = self.fold_expr((*m.receiver).clone());
                    let saved = self.env.clone();
                    let body = self.fold_expr((*cl.body).clone());
                    self.env = saved;
                    let pat = self.fold_pat(pat);
                    return parse_quote!({
                        let mut #idx: usize = 0;
                        while #idx < #recv.len() {
                            #marker
                            let __keep = { let #pat = &#recv[#idx]; #body };
                            if __keep { #idx += 1; } else { let _ = #recv.remove(#idx); }
                        }
                    });
                }
            }
        }
        // `X.m(args)` → `f(X, args)` (by value / by shared reference; trusted helper)
        if let Some((_, to)) = self.u.methodval.iter().find(|(a, _)| *a == method).cloned() {
            let recv = self.fold_expr((*m.receiver).clone());
            let args: Vec<Expr> = m.args.iter().cloned().map(|a| self.fold_expr(a)).collect();
            let f = ident(&to);
            return parse_quote!(#f(#recv #(, #args)*));
        }
        // std methods without a vstd spec: `X.m(args)` → `f(&mut X, args)` (trusted helper, listed as assumption)
        if let Some((_, to)) = self.u.methodfn.iter().find(|(a, _)| *a == method).cloned() {
            let recv = self.fold_expr((*m.receiver).clone());
            let mut args: Vec<Expr> = m.args.iter().cloned().map(|a| self.fold_expr(a)).collect();
            if self.u.ctxfns.contains(&to) {
                let b = self.spec.blocking;
                args.push(parse_quote!(#b));
            }
            let f = ident(&to);
            let call: Expr = parse_quote!(#f(&mut #recv #(, #args)*));
            let rf = last_field(&m.receiver).unwrap_or_default();
            return self.wrap_op(call, &format!("{}.{}", rf, method), false);
        }
        // R3: calls into the manager that the pool-level model must see (`X.manager.detach(..)` → `POOL.mgr_detach_(..)`)
        {
            let rl = match peel_paren(&m.receiver) {
                Expr::Field(f) => last_field(&Expr::Field(f.clone())),
                Expr::MethodCall(mm) if mm.args.is_empty() => Some(mm.method.to_string()),
                _ => None,
            };
            if let Some(rl) = rl {
                if let Some((_, _, to)) = self.u.poolcall.iter().find(|(r, mth, _)| *r == rl && *mth == method).cloned() {
                    if let Some(pool) = self.pool.clone() {
                        let args: Vec<Expr> = m.args.iter().cloned().map(|a| self.fold_expr(a)).collect();
                        let to_id = ident(&to);
                        let call: Expr = parse_quote!(#pool.#to_id(#(#args),*));
                        return self.wrap_op(call, &format!("{}.{}", rl, method), false);
                    } else {
                        self.unsupported("manager call in a function without pool path", sp);
                    }
                }
            }
        }
        let recv_orig = (*m.receiver).clone();
        let recv_field = last_field(&recv_orig);
        let recv_local = path_single_ident(&recv_orig);

        // consumer methods on RAII locals
        let mut extra_args: Vec<Expr> = vec![];
        let mut consumed: Option<Raii> = None;
        if let Some(n) = &recv_local {
            if self.find_raii(n).is_some() {
                // methods of backref types that take the pool explicitly
                if let Some(i) = self.find_raii(n) {
                    if let RaiiKind::Backref { pool } = &self.env.raii[i].kind {
                        let needs = self.t.backparam_fns.keys().any(|k| k.ends_with(&format!("::{}", method)));
                        if needs {
                            let p = pool.clone();
                            extra_args.push(parse_quote!(&mut #p));
                        }
                    }
                }
                if CONSUMER_METHODS.contains(&method.as_str()) {
                    consumed = self.consume(n);
                }
            }
        }

        let recv = self.fold_expr(recv_orig);
        let mut args: Vec<Expr> = vec![];
        let mutpos: Vec<usize> = self.t.mutref_params.get(&method).cloned().unwrap_or_default();
        for (ai, a) in m.args.into_iter().enumerate() {
            // the callee's parameter was retyped from `&T` to `&mut T` (a `shared` type): pass `&mut x`
            let a = match a {
                Expr::Reference(mut r) if mutpos.contains(&ai) && r.mutability.is_none() => {
                    r.mutability = Some(Default::default());
                    Expr::Reference(r)
                }
                other => other,
            };
            let a2 = self.fold_expr(a);
            self.value_consumes(&a2);
            args.push(a2);
        }
        args.extend(extra_args);
        let _ = consumed;
        // `P.f(g(&mut P..))`: an argument that itself borrows the (pool) path of the receiver mutably - a consequence of the
        // explicit pool parameter (R6) - is evaluated into a temporary first; the receiver is a place, so the order of
        // evaluation is unchanged
        let mut hoisted_args: Vec<Stmt> = vec![];
        {
            let rtxt = expr_to_string(&recv);
            if rtxt.starts_with("self") && (rtxt.contains('.') ) {
                let root: String = rtxt.split(" . ").take(2).collect::<Vec<_>>().join(" . ");
                for (k, a) in args.iter_mut().enumerate() {
                    let at = expr_to_string(a);
                    if !matches!(a, Expr::Reference(_)) && (at.contains(&format!("& mut {}", root)) || at.contains(&format!("&mut {}", root))) {
                        let tmp = ident(&format!("__vx_arg{}", k));
                        let val = a.clone();
                        hoisted_args.push(parse_quote!(let #tmp = #val;));
                        *a = parse_quote!(#tmp);
                    }
                }
            }
        }

        let mut mc = ExprMethodCall {
            attrs: vec![],
            receiver: Box::new(recv),
            dot_token: m.dot_token,
            method: m.method.clone(),
            turbofish: m.turbofish.map(|t| self.fold_angle_bracketed_generic_arguments(t)),
            paren_token: m.paren_token,
            args: args.into_iter().collect(),
        };
        if let Some((_, to)) = self.u.callrename.iter().find(|(a, _)| *a == method) {
            mc.method = ident(to);
        }

        if (method == "unwrap" || method == "expect") && matches!(&*mc.receiver, Expr::Block(_) | Expr::Match(_) | Expr::If(_)) {
            let r = (*mc.receiver).clone();
            mc.receiver = Box::new(parse_quote!(__u));
            let call = Expr::MethodCall(mc);
            return parse_quote!({ let __u = #r; #call });
        }
        // atomic primitive
        let recv_field2 = recv_field.or_else(|| match last_field(&mc.receiver) {
            // guard alias: `X.data` — key by the mutex field
            Some(d) if d == "data" => match peel_paren(&mc.receiver) {
                Expr::Field(f) => last_field(&f.base),
                _ => Some(d),
            },
            other => other,
        });
        if let Some(f) = &recv_field2 {
            if self.t.prim_fields.contains(f) && ATOMIC_METHODS.contains(&method.as_str()) {
                return self.wrap_op(Expr::MethodCall(mc), &format!("{}.{}", f, method), true);
            }
        }
        let base = match &recv_field2 {
            Some(f) => format!("{}.{}", f, method),
            None => format!(".{}", method),
        };
        let call = self.wrap_op(Expr::MethodCall(mc), &base, false);
        if hoisted_args.is_empty() {
            call
        } else {
            parse_quote!({ #(#hoisted_args)* #call })
        }
    }

    fn do_call(&mut self, c: ExprCall) -> Expr {
        let sp = c.span();
        if let Expr::Path(p) = &*c.func {
            let name = path_to_string(&p.path);
            let last = p.path.segments.last().unwrap().ident.to_string();
            // drop(x)
            if (name == "drop" || name == "std::mem::drop" || name == "mem::drop") && c.args.len() == 1 {
                if let Some(n) = path_single_ident(&c.args[0]) {
                    if let Some(r) = self.consume(&n) {
                        let d = self.drop_stmts(&r);
                        return expr_block(d);
                    }
                    // dropping a plain value: nothing observable
                    return expr_block(vec![]);
                }
                // `drop(f(..))`: the value of a call, dropped at once (a plain value here: RAII values are always bound to locals
                // in the extracted code)
                if matches!(peel_paren(&c.args[0]), Expr::MethodCall(_) | Expr::Call(_) | Expr::Try(_)) {
                    let e = self.fold_expr(c.args[0].clone());
                    if let Some(dv) = self.u.dropvalue.clone() {
                        // the destructor of the dropped value is user code (C14): modelled call, with the thread context
                        let f = ident(&dv);
                        let b = self.spec.blocking;
                        return parse_quote!(#f(#e, #b));
                    }
                    return parse_quote!({ let _ = #e; });
                }
                self.unsupported("drop of a non-local", sp);
            }
            // erased wrappers: Arc::new(x) → x
            if p.path.segments.len() == 2 && last == "new" && c.args.len() == 1 {
                let w = p.path.segments[0].ident.to_string();
                if self.u.erase.contains(&w) {
                    return self.fold_expr(c.args[0].clone());
                }
            }
            // catch_unwind(AssertUnwindSafe(|| f(args))) / catch_unwind(|| f(args)) around ONE call of a closure that may panic:
            // the unwind exit of that call becomes the `Err(payload)` value
            if last == "catch_unwind" && c.args.len() == 1 {
                let mut inner = peel_paren(&c.args[0]).clone();
                if let Expr::Call(w) = &inner {
                    if let Expr::Path(wp) = &*w.func {
                        if wp.path.segments.last().unwrap().ident == "AssertUnwindSafe" && w.args.len() == 1 {
                            inner = peel_paren(&w.args[0]).clone();
                        }
                    }
                }
                if let Expr::Closure(cl) = &inner {
                    if cl.inputs.is_empty() {
                        let mut body = peel_paren(&cl.body).clone();
                        if let Expr::Block(b) = &body {
                            if b.block.stmts.len() == 1 {
                                if let Stmt::Expr(e, None) = &b.block.stmts[0] {
                                    body = peel_paren(e).clone();
                                }
                            }
                        }
                        if let Expr::Call(bc) = &body {
                            if let Expr::Path(bp) = &*bc.func {
                                if bp.path.segments.len() == 1 {
                                    let callee = bp.path.segments[0].ident.to_string();
                                    if self.u.localcall.contains(&callee) && self.spec.panics.contains(&callee) {
                                        let f = self.fold_expr((*bc.func).clone());
                                        let mut args: Vec<Expr> = bc.args.iter().cloned().map(|a| self.fold_expr(a)).collect();
                                        if self.u.blockingctx {
                                            let b = self.spec.blocking;
                                            args.push(parse_quote!(#b));
                                        }
                                        let call: Expr = parse_quote!(#f.call_(#(#args),*));
                                        let call = self.wrap_op(call, &format!("{}.call", callee), false);
                                        return parse_quote!(match #call {
                                            Ctl::Done(__v) => Ok(__v),
                                            Ctl::Unwind => Err(vx_panic_payload_()),
                                        });
                                    }
                                }
                            }
                        }
                    }
                }
                self.unsupported("catch_unwind around anything but one call of a closure declared `panics`", sp);
            }
            // local closure call
            if p.path.segments.len() == 1 && self.u.localcall.contains(&last) {
                let f = self.fold_expr((*c.func).clone());
                let mut args: Vec<Expr> = c.args.into_iter().map(|a| self.fold_expr(a)).collect();
                if self.u.blockingctx {
                    let b = self.spec.blocking;
                    args.push(parse_quote!(#b));
                }
                let call: Expr = parse_quote!(#f.call_(#(#args),*));
                if self.spec.panics.contains(&last) {
                    // user code that may panic: the call yields Ctl<R>; a panic unwinds this function
                    if !self.ctl {
                        self.unsupported("call of a panicking closure in a function that cannot unwind", sp);
                    }
                    let call = self.wrap_op(call, &format!("{}.call", last), false);
                    let drops = self.unwind_drops();
                    return parse_quote!(match #call {
                        Ctl::Done(__v) => __v,
                        Ctl::Unwind => { #(#drops)* return Ctl::Unwind; }
                    });
                }
                return self.wrap_op(call, &format!("{}.call", last), false);
            }
        }
        let func = self.fold_expr(*c.func);
        let mut args: Vec<Expr> = vec![];
        for a in c.args.into_iter() {
            let a2 = self.fold_expr(a);
            self.value_consumes(&a2);
            args.push(a2);
        }
        let base = match &func {
            Expr::Path(p) => path_to_string(&p.path),
            _ => "call".to_string(),
        };
        let call = Expr::Call(ExprCall {
            attrs: vec![],
            func: Box::new(func),
            paren_token: c.paren_token,
            args: args.into_iter().collect(),
        });
        self.wrap_op(call, &base, false)
    }

    fn do_struct(&mut self, s: ExprStruct) -> Expr {
        let ty = s.path.segments.last().unwrap().ident.to_string();
        let ty = if ty == "Self" { self.impl_ty.clone().unwrap_or(ty) } else { ty };
        let dropped: Vec<String> = self.t.dropped_fields.get(&ty).cloned().unwrap_or_default();
        let mut fields = punctuated::Punctuated::new();
        for f in s.fields.into_iter() {
            let fname = match &f.member {
                Member::Named(i) => i.to_string(),
                Member::Unnamed(i) => i.index.to_string(),
            };
            if dropped.contains(&fname) {
                continue;
            }
            let was_shorthand = f.colon_token.is_none();
            let e2 = self.fold_expr(f.expr);
            self.value_consumes(&e2);
            let mut colon = f.colon_token;
            if was_shorthand {
                // alias substitution may have changed the expression
                if path_single_ident(&e2).map(|n| n != fname).unwrap_or(true) {
                    colon = Some(Default::default());
                }
            }
            fields.push(FieldValue { attrs: vec![], member: f.member, colon_token: colon, expr: e2 });
        }
        if let Some(gf) = self.t.ghost_structs.get(&ty) {
            for (n, init) in gf.iter() {
                let e: Expr = syn::parse_str(init).unwrap_or_else(|_| panic!("ghost init `{}`", init));
                let id = ident(n);
                fields.push(parse_quote!(#id: #e));
            }
        }
        let path = self.fold_path(s.path);
        let rest = s.rest.map(|r| Box::new(self.fold_expr(*r)));
        if rest.is_some() && !fields.is_empty() && !fields.trailing_punct() {
            fields.push_punct(Default::default());
        }
        Expr::Struct(ExprStruct {
            attrs: vec![],
            qself: None,
            path,
            brace_token: s.brace_token,
            fields,
            dot2_token: s.dot2_token,
            rest,
        })
    }

    fn is_upgrade_like(&self, e: &Expr) -> bool {
        match peel_paren(e) {
            Expr::MethodCall(m) if m.method == "upgrade" && m.args.is_empty() => true,
            Expr::Call(c) => {
                if let Expr::Path(p) = &*c.func {
                    self.u.upgradelike.contains(&path_to_string(&p.path))
                } else {
                    false
                }
            }
            _ => false,
        }
    }

    fn fold_branch_block(&mut self, b: Block, pre: Vec<Raii>) -> (Block, Env, bool) {
        let saved = self.env.clone();
        let b2 = self.fold_block_scoped(b, pre);
        let after = std::mem::replace(&mut self.env, saved);
        let d = block_diverges(&b2);
        (b2, after, d)
    }

    /// after branches: make every non-diverging branch end with the same live set
    fn reconcile(&mut self, branches: Vec<(Expr, Env, bool)>) -> Vec<Expr> {
        let live_sets: Vec<BTreeSet<String>> = branches
            .iter()
            .filter(|(_, _, d)| !*d)
            .map(|(_, e, _)| e.raii.iter().map(|r| r.name.clone()).collect())
            .collect();
        if live_sets.is_empty() {
            // every branch diverges: code after is unreachable; keep env
            return branches.into_iter().map(|(e, _, _)| e).collect();
        }
        let mut target = live_sets[0].clone();
        for s in live_sets.iter().skip(1) {
            target = target.intersection(s).cloned().collect();
        }
        let mut out = vec![];
        for (e, env, d) in branches.into_iter() {
            if d {
                out.push(e);
                continue;
            }
            let extra: Vec<Raii> = env.raii.iter().rev().filter(|r| !target.contains(&r.name)).cloned().collect();
            let mut drops = vec![];
            for r in extra.iter() {
                drops.extend(self.drop_stmts(r));
            }
            out.push(Self::append_after_value(e, drops, false));
        }
        self.env.raii.retain(|r| target.contains(&r.name));
        out
    }

    fn do_if(&mut self, i: ExprIf) -> Expr {
        let sp = i.span();
        // `if let PAT = EXPR`
        if let Expr::Let(l) = &*i.cond {
            // `if let Ok(g) = X.try_lock() { A } [else { B }]` (also `X.lock()`) on a poisonable mutex: the guard exists only in A
            if self.u.poisonlocks {
                if let (Expr::MethodCall(l), Pat::TupleStruct(ts)) = (peel_paren(&l.expr), &*l.pat) {
                    let mfield = last_field(&l.receiver).filter(|f| self.t.mutex_fields.contains(f)).or_else(|| path_single_ident(&l.receiver).filter(|n| self.u.mutexlocals.contains(n)));
                    if (l.method == "try_lock" || l.method == "lock") && l.args.is_empty() && mfield.is_some() && ts.path.segments.last().unwrap().ident == "Ok" && ts.elems.len() == 1 {
                        if let Some(gn) = Self::pat_single_ident(&ts.elems[0]) {
                            let field = mfield.unwrap();
                            let place = self.fold_expr((*l.receiver).clone());
                            let acquire: Expr = if l.method == "try_lock" { parse_quote!(#place.try_lock_()) } else { parse_quote!(#place.lock_unpoisoned_()) };
                            let kl = self.next_key(&format!("{}.{}", field, l.method));
                            let mut pre: Vec<Stmt> = vec![];
                            pre.extend(self.pt());
                            pre.extend(self.ghost_marker("before", &kl));
                            let n_alias = self.env.aliases.len();
                            let data: Expr = parse_quote!(#place.data);
                            self.bind_alias(&gn, data);
                            let (tb, _env_t, _dt) = self.fold_branch_block(i.then_branch.clone(), vec![Raii { name: gn.clone(), kind: RaiiKind::Lock { place: place.clone(), field: field.clone() }, depth: 0 }]);
                            self.env.aliases.truncate(n_alias);
                            let eb: Option<Expr> = match &i.else_branch {
                                Some((_, e)) => {
                                    let saved = self.env.clone();
                                    let e2 = self.fold_expr((**e).clone());
                                    self.env = saved;
                                    Some(e2)
                                }
                                None => None,
                            };
                            let ife: Expr = match eb {
                                Some(e) => parse_quote!(if #acquire #tb else #e),
                                None => parse_quote!(if #acquire #tb),
                            };
                            pre.push(Stmt::Expr(ife, None));
                            return expr_block(pre);
                        }
                    }
                }
            }
            // weak references into a modelled heap (`heapupgrade H`): `if let Some(x) = W.upgrade() { B }` ⇒
            // `if H.alive_(&W) { let mut x = H.take_(&W); B; H.put_(x); }` — B works on the object the weak reference names
            if let (Some(h), Expr::MethodCall(mc), None) = (self.u.heapupgrade.clone(), peel_paren(&l.expr), &i.else_branch) {
                if mc.method == "upgrade" && mc.args.is_empty() {
                    let mut names = vec![];
                    Self::pat_idents(&l.pat, &mut names);
                    if names.len() != 1 {
                        self.unsupported("upgrade pattern with other than one binding", sp);
                    }
                    let x = ident(&names[0]);
                    let hp = ident(&h);
                    let w = self.fold_expr((*mc.receiver).clone());
                    let saved = self.env.clone();
                    self.unbind(&names[0]);
                    let body = self.fold_block_scoped(i.then_branch.clone(), vec![]);
                    self.env = saved;
                    return parse_quote!(if #hp.alive_(&#w) {
                        let mut #x = #hp.take_(&#w);
                        #body
                        #hp.put_(#x);
                    });
                }
            }
            // R6: `if let Some(x) = <weak>.upgrade()`
            if self.is_upgrade_like(&l.expr) {
                let mut names = vec![];
                Self::pat_idents(&l.pat, &mut names);
                let (_, param) = match &self.backparam {
                    Some(bp) => bp.clone(),
                    None => {
                        self.unsupported("upgrade() in a function without back-reference parameter", sp);
                        (String::new(), "pool".to_string())
                    }
                };
                let p = ident(&param);
                let n_alias = self.env.aliases.len();
                if names.len() == 1 {
                    self.bind_alias(&names[0], parse_quote!(#p));
                } else {
                    self.unsupported("upgrade pattern with other than one binding", sp);
                }
                let (tb, env_t, dt) = self.fold_branch_block(i.then_branch, vec![]);
                self.env.aliases.truncate(n_alias);
                let (eb, env_e, de) = match i.else_branch {
                    Some((_, e)) => {
                        let saved = self.env.clone();
                        let e2 = self.fold_expr(*e);
                        let after = std::mem::replace(&mut self.env, saved);
                        let d = diverges(&e2);
                        (Some(e2), after, d)
                    }
                    None => (None, self.env.clone(), false),
                };
                let tb_e = Expr::Block(ExprBlock { attrs: vec![], label: None, block: tb });
                let mut brs = vec![(tb_e, env_t, dt)];
                if let Some(e) = eb {
                    brs.push((e, env_e, de));
                } else {
                    brs.push((expr_block(vec![]), env_e, false));
                }
                let mut r = self.reconcile(brs);
                let else_e = r.pop().unwrap();
                let then_e = r.pop().unwrap();
                let then_b = match then_e {
                    Expr::Block(b) => b.block,
                    other => block_of(vec![Stmt::Expr(other, None)]),
                };
                let has_else = match &else_e {
                    Expr::Block(b) => !b.block.stmts.is_empty(),
                    _ => true,
                };
                if has_else {
                    return parse_quote!(if #p.alive_() #then_b else #else_e);
                }
                return parse_quote!(if #p.alive_() #then_b);
            }
        }
        // general
        let mut pre: Vec<Raii> = vec![];
        let cond = match *i.cond {
            Expr::Let(l) => {
                let mut names = vec![];
                Self::pat_idents(&l.pat, &mut names);
                let acq = find_acquire(&l.expr);
                let scrut = self.fold_temp_scope(*l.expr);
                if let Some((sem, field)) = acq {
                    if self.t.prim_fields.contains(&field) && names.len() == 1 {
                        let sem2 = self.fold_expr_quiet(sem);
                        pre.push(Raii { name: names[0].clone(), kind: RaiiKind::Permit { sem: sem2, field, wrapped: false }, depth: 0 });
                    }
                }
                let pat = self.fold_pat(*l.pat);
                Expr::Let(ExprLet { attrs: vec![], let_token: l.let_token, pat: Box::new(pat), eq_token: l.eq_token, expr: Box::new(scrut) })
            }
            other => self.fold_temp_scope(other),
        };
        let (tb, env_t, dt) = self.fold_branch_block(i.then_branch, pre);
        let tb_e = Expr::Block(ExprBlock { attrs: vec![], label: None, block: tb });
        let (eb, env_e, de) = match i.else_branch {
            Some((_, e)) => {
                let saved = self.env.clone();
                let e2 = match *e {
                    Expr::Block(b) => {
                        let b2 = self.fold_block_scoped(b.block, vec![]);
                        Expr::Block(ExprBlock { attrs: vec![], label: None, block: b2 })
                    }
                    other => self.fold_expr(other),
                };
                let after = std::mem::replace(&mut self.env, saved);
                let d = diverges(&e2);
                (Some(e2), after, d)
            }
            None => (None, self.env.clone(), false),
        };
        let had_else = eb.is_some();
        let mut brs = vec![(tb_e, env_t, dt)];
        brs.push((eb.unwrap_or_else(|| expr_block(vec![])), env_e, de));
        let mut r = self.reconcile(brs);
        let else_e = r.pop().unwrap();
        let then_e = r.pop().unwrap();
        let then_b = match then_e {
            Expr::Block(b) => b.block,
            other => block_of(vec![Stmt::Expr(other, None)]),
        };
        let else_nonempty = match &else_e {
            Expr::Block(b) => !b.block.stmts.is_empty(),
            _ => true,
        };
        if had_else || else_nonempty {
            let else_e = match else_e {
                Expr::Block(_) | Expr::If(_) => else_e,
                other => expr_block(vec![Stmt::Expr(other, None)]),
            };
            parse_quote!(if #cond #then_b else #else_e)
        } else {
            parse_quote!(if #cond #then_b)
        }
    }

    fn do_match(&mut self, m: ExprMatch) -> Expr {
        // `match w.upgrade() { Some(p) => A, None => B }`  ==  `if let Some(p) = w.upgrade() { A } else { B }`
        if self.is_upgrade_like(&m.expr) && m.arms.len() == 2 && m.arms.iter().all(|a| a.guard.is_none()) {
            let some = m.arms.iter().find(|a| matches!(&a.pat, Pat::TupleStruct(ts) if ts.path.segments.last().unwrap().ident == "Some" && ts.elems.len() == 1));
            let none = m.arms.iter().find(|a| matches!(&a.pat, Pat::Ident(pi) if pi.ident == "None") || matches!(&a.pat, Pat::Path(pp) if pp.path.is_ident("None")) || matches!(&a.pat, Pat::Wild(_)));
            if let (Some(sa), Some(na)) = (some, none) {
                let pat = &sa.pat;
                let scrut = &m.expr;
                let a = &sa.body;
                let b = &na.body;
                let rewritten: Expr = parse_quote!(if let #pat = #scrut { #a } else { #b });
                return self.fold_expr(rewritten);
            }
        }
        // `match X.lock() { Ok(g) => A, Err(e) => B }` on a poisonable mutex: the lock is taken either way; the `Ok` arm runs when
        // the mutex is not poisoned (g aliases the data), the `Err` arm otherwise (e — after `into_inner()` — aliases the data)
        if self.u.poisonlocks && m.arms.len() == 2 {
            if let Expr::MethodCall(l) = peel_paren(&m.expr) {
                let mfield = last_field(&l.receiver).filter(|f| self.t.mutex_fields.contains(f)).or_else(|| path_single_ident(&l.receiver).filter(|n| self.u.mutexlocals.contains(n)));
                if l.method == "lock" && l.args.is_empty() && mfield.is_some() {
                    let field = mfield.unwrap();
                    let arm_of = |want: &str| -> Option<(String, Expr)> {
                        m.arms.iter().find_map(|a| match &a.pat {
                            Pat::TupleStruct(ts) if ts.path.segments.last().unwrap().ident == want && ts.elems.len() == 1 && a.guard.is_none() => {
                                Self::pat_single_ident(&ts.elems[0]).map(|n| (n, (*a.body).clone()))
                            }
                            _ => None,
                        })
                    };
                    if let (Some((gn, ok_body)), Some((en, err_body))) = (arm_of("Ok"), arm_of("Err")) {
                        let place = self.fold_expr((*l.receiver).clone());
                        let kl = self.next_key(&format!("{}.lock", field));
                        let mut stmts: Vec<Stmt> = vec![];
                        stmts.extend(self.pt());
                        stmts.extend(self.ghost_marker("before", &kl));
                        stmts.push(parse_quote!(#place.lock_();));
                        stmts.extend(self.ghost_marker("after", &kl));
                        let data: Expr = parse_quote!(#place.data);
                        let n_alias = self.env.aliases.len();
                        self.bind_alias(&gn, data.clone());
                        let a = self.fold_expr(ok_body);
                        self.env.aliases.truncate(n_alias);
                        self.bind_alias(&en, data);
                        let b = self.fold_expr(err_body);
                        self.env.aliases.truncate(n_alias);
                        stmts.push(parse_quote!(let __m = if !#place.is_poisoned() { #a } else { #b };));
                        let ku = self.next_key(&format!("{}.unlock", field));
                        stmts.extend(self.ghost_marker("before", &ku));
                        stmts.push(parse_quote!(#place.unlock_();));
                        stmts.extend(self.ghost_marker("after", &ku));
                        stmts.push(Stmt::Expr(parse_quote!(__m), None));
                        return expr_block(stmts);
                    }
                }
            }
        }
        let mut acq = find_acquire(&m.expr);
        // `match p { Ok(permit) => .., Err(e) => .. }` on a local that holds the still-wrapped result of an acquisition: the
        // value moves into the match, the `Ok` arm owns the permit
        let mut acq_folded = false;
        if acq.is_none() {
            if let Some(n) = path_single_ident(peel_paren(&m.expr)) {
                if let Some(i) = self.find_raii(&n) {
                    if let RaiiKind::Permit { sem, field, wrapped: true } = &self.env.raii[i].kind {
                        acq = Some((sem.clone(), field.clone()));
                        acq_folded = true;
                        self.env.raii.remove(i);
                    }
                }
            }
        }
        let scrut = self.fold_temp_scope(*m.expr);
        let mut brs = vec![];
        let mut heads = vec![];
        let mut arm_moved: Vec<Option<Raii>> = vec![];
        for arm in m.arms.into_iter() {
            let mut pre: Vec<Raii> = vec![];
            // `Ok(IDENT)` of an acquisition
            if let Some((sem, field)) = &acq {
                if self.t.prim_fields.contains(field) {
                    if let Pat::TupleStruct(ts) = &arm.pat {
                        if ts.path.segments.last().unwrap().ident == "Ok" && ts.elems.len() == 1 {
                            if let Some(n) = Self::pat_single_ident(&ts.elems[0]) {
                                let sem2 = if acq_folded { sem.clone() } else { self.fold_expr_quiet(sem.clone()) };
                                pre.push(Raii { name: n, kind: RaiiKind::Permit { sem: sem2, field: field.clone(), wrapped: false }, depth: 0 });
                            }
                        }
                    }
                }
            }
            let saved = self.env.clone();
            let mut names = vec![];
            Self::pat_idents(&arm.pat, &mut names);
            for n in names.iter() {
                self.unbind(n);
            }
            let mut arm = arm;
            // string-literal patterns (`Some("")`) → binding + guard on the modelled string
            if self.u.strlits && arm.guard.is_none() {
                if let Pat::TupleStruct(ts) = &mut arm.pat {
                    if ts.elems.len() == 1 {
                        if let Pat::Lit(pl) = &ts.elems[0] {
                            if let Lit::Str(ls) = &pl.lit {
                                let ls = ls.clone();
                                ts.elems = std::iter::once::<Pat>(parse_quote!(__s)).collect();
                                arm.guard = Some((Default::default(), Box::new(parse_quote!(__s.is_lit_(#ls)))));
                            }
                        }
                    }
                }
            }
            let guard = arm.guard.map(|(i, g)| (i, Box::new(self.fold_expr(*g))));
            self.block_moved = None;
            let body = match *arm.body {
                Expr::Block(b) => {
                    let b2 = self.fold_block_scoped(b.block, pre);
                    Expr::Block(ExprBlock { attrs: vec![], label: None, block: b2 })
                }
                other => {
                    if pre.is_empty() {
                        // arm expression is a temporary scope
                        self.fold_temp_scope(other)
                    } else {
                        let b = block_of(vec![Stmt::Expr(other, None)]);
                        let b2 = self.fold_block_scoped(b, pre);
                        Expr::Block(ExprBlock { attrs: vec![], label: None, block: b2 })
                    }
                }
            };
            let after = std::mem::replace(&mut self.env, saved);
            let d = diverges(&body);
            arm_moved.push(if d { None } else { self.block_moved.take() });
            let pat = self.fold_pat(arm.pat);
            heads.push((pat, guard, arm.fat_arrow_token));
            brs.push((body, after, d));
        }
        // the match hands a tracked value out if every arm that yields a value does
        {
            let live: Vec<&Option<Raii>> = arm_moved.iter().zip(brs.iter()).filter(|(_, b)| !b.2).map(|(m, _)| m).collect();
            self.block_moved = if !live.is_empty() && live.iter().all(|m| m.is_some()) { live[0].clone() } else { None };
        }
        let moved_out = self.block_moved.clone();
        let bodies = self.reconcile(brs);
        self.block_moved = moved_out;
        let arms: Vec<Arm> = heads
            .into_iter()
            .zip(bodies.into_iter())
            .map(|((pat, guard, fa), body)| Arm {
                attrs: vec![],
                pat,
                guard,
                fat_arrow_token: fa,
                body: Box::new(body),
                comma: Some(Default::default()),
            })
            .collect();
        Expr::Match(ExprMatch { attrs: vec![], match_token: m.match_token, expr: Box::new(scrut), brace_token: m.brace_token, arms })
    }

    // The contract of a loop is found by the header text of the loop (`at`), else by its ordinal in the function; a loop
    // without a contract gets an id beyond every contract's.
    fn loop_marker(&mut self, header: String) -> Stmt {
        let h: String = header.chars().filter(|c| !c.is_whitespace()).collect();
        let ord = self.loop_ctr;
        self.loop_ctr += 1;
        let by_text = self.spec.loops.iter().find(|(k, l)| l.at.as_deref() == Some(h.as_str()) && !self.used_loops.contains(*k)).map(|(k, _)| *k);
        // ordinal fallback: the contract with this ordinal, unless its own loop (by header text) still exists elsewhere
        let id = match by_text {
            Some(k) => k,
            None => match self.spec.loops.get(&ord) {
                Some(l) if !self.used_loops.contains(&ord) && l.at.as_ref().map(|a| !self.all_loop_headers.contains(a)).unwrap_or(true) => ord,
                _ => 100 + ord,
            },
        };
        self.used_loops.insert(id);
        self.cur_loop = id;
        if id >= 100 && !self.spec.loops.is_empty() {
            self.notes.push(format!("loop `{}` has no contract", h));
        }
        // a contract applied by ordinal only (the anchored header text is gone: the loop was rewritten) is marked: `check` does not
        // take a failure of, or after, such a loop for a violation (its invariant was written for another loop)
        // ... unless the header still names the same things in the same order (only an operator or a literal differs, e.g.
        // `i < n` -> `i <= n`): that is the same loop with a changed condition, and its contract judges it
        fn idents_of(t: &str) -> Vec<String> {
            let mut out = vec![];
            let mut cur = String::new();
            for c in t.chars() {
                if c.is_alphanumeric() || c == '_' {
                    cur.push(c);
                } else {
                    if !cur.is_empty() && !cur.chars().next().unwrap().is_ascii_digit() {
                        out.push(cur.clone());
                    }
                    cur.clear();
                }
            }
            if !cur.is_empty() && !cur.chars().next().unwrap().is_ascii_digit() {
                out.push(cur);
            }
            out
        }
        // (also when one header's names are a subsequence of the other's: a conjunct was added to, or dropped from, the condition)
        fn subseq(a: &[String], b: &[String]) -> bool {
            let mut i = 0;
            for x in b {
                if i < a.len() && a[i] == *x {
                    i += 1;
                }
            }
            i == a.len()
        }
        let same_names = self.spec.loops.get(&id).and_then(|l| l.at.as_ref()).map(|a| { let (x, y) = (idents_of(a), idents_of(&h)); x == y || (x.len() >= 3 && subseq(&x, &y)) || (y.len() >= 3 && subseq(&y, &x)) }).unwrap_or(false);
        let flag = proc_macro2::Literal::u32_unsuffixed(if by_text.is_none() && id < 100 && !same_names && self.spec.loops.get(&id).map(|l| l.at.is_some()).unwrap_or(false) { 1 } else { 0 });
        let n = proc_macro2::Literal::u32_unsuffixed(id as u32);
        let hoisted: Vec<proc_macro2::Literal> = self.hoisted.iter().map(|(a, b)| proc_macro2::Literal::string(&format!("{} == {}", a, b))).collect();
        parse_quote!(__vx_loop!(#n, #flag #(, #hoisted)*);)
    }

    fn fold_loop_body(&mut self, b: Block) -> Block {
        let before: Vec<String> = self.env.raii.iter().map(|r| r.name.clone()).collect();
        let saved = self.env.clone();
        let b2 = self.fold_block_scoped(b, vec![]);
        let after: Vec<String> = self.env.raii.iter().map(|r| r.name.clone()).collect();
        if before != after {
            self.unsupported("RAII local consumed inside a loop body", b2.span());
        }
        self.env = saved;
        b2
    }

    fn do_loop(&mut self, l: ExprLoop) -> Expr {
        if l.label.is_some() {
            self.unsupported("labelled loop", l.span());
        }
        let marker = self.loop_marker("loop".to_string());
        let brkty: Option<Type> = self.spec.loops.get(&(self.cur_loop)).and_then(|l| l.collects.clone()).and_then(|t| syn::parse_str(&t).ok());
        let hoist = has_break_value(&l.body);
        let var = if hoist {
            let v = format_ident!("__brk{}", self.brk_ctr);
            self.brk_ctr += 1;
            Some(v)
        } else {
            None
        };
        self.brk_stack.push(var.clone());
        let mut body = self.fold_loop_body(l.body);
        self.brk_stack.pop();
        body.stmts.insert(0, marker);
        let lp = Expr::Loop(ExprLoop { attrs: vec![], label: None, loop_token: l.loop_token, body });
        match var {
            Some(v) => match brkty {
                // `collects T` of the loop's overlay entry: the type of the hoisted break value (needed when an invariant names it)
                Some(t) => parse_quote!({ let mut #v: Option<#t> = None; #lp; #v.unwrap() }),
                None => parse_quote!({ let mut #v = None; #lp; #v.unwrap() }),
            },
            None => lp,
        }
    }

    fn do_while(&mut self, w: ExprWhile) -> Expr {
        if w.label.is_some() {
            self.unsupported("labelled loop", w.span());
        }
        // `while let PAT = EXPR { BODY }`  →  `loop { match EXPR { PAT => BODY, _ => break } }`
        if let Expr::Let(l) = &*w.cond {
            let marker = self.loop_marker(format!("while {}", expr_to_string(&w.cond)));
            let scrut = self.fold_temp_scope((*l.expr).clone());
            let saved = self.env.clone();
            let mut names = vec![];
            Self::pat_idents(&l.pat, &mut names);
            for n in names.iter() {
                self.unbind(n);
            }
            self.brk_stack.push(None);
            let body = self.fold_loop_body(w.body);
            self.brk_stack.pop();
            self.env = saved;
            let pat = self.fold_pat((*l.pat).clone());
            return parse_quote!(loop {
                #marker
                match #scrut {
                    #pat => #body,
                    _ => { break; }
                }
            });
        }
        let marker = self.loop_marker(format!("while {}", expr_to_string(&w.cond)));
        let cond = self.fold_temp_scope(*w.cond);
        self.brk_stack.push(None);
        let mut body = self.fold_loop_body(w.body);
        self.brk_stack.pop();
        body.stmts.insert(0, marker);
        Expr::While(ExprWhile { attrs: vec![], label: None, while_token: w.while_token, cond: Box::new(cond), body })
    }

    fn self_field_type(&self, e: &Expr) -> Option<(String, String)> {
        // `self.F` / `&self.F` → (F, declared type)
        let e = match peel_paren(e) {
            Expr::Reference(r) => peel_paren(&r.expr).clone(),
            other => other.clone(),
        };
        if let Expr::Field(fe) = &e {
            if path_single_ident(&fe.base).as_deref() == Some("self") {
                if let Member::Named(id) = &fe.member {
                    let st = self.impl_ty.clone()?;
                    return self.t.field_types.get(&(st, id.to_string())).map(|t| (id.to_string(), t.clone()));
                }
            }
        }
        None
    }

    fn expand_iter_chain(&self, f: &ExprForLoop) -> Option<Expr> {
        let pat = &*f.pat;
        let body = &f.body;
        fn seg(this: &Elab, it: &Expr, pat: &Pat, body: &Block) -> Option<Vec<Stmt>> {
            if let Expr::MethodCall(m) = peel_paren(it) {
                // A.chain(B)
                if m.method == "chain" && m.args.len() == 1 {
                    let mut a = seg(this, &m.receiver, pat, body)?;
                    let b = seg(this, &m.args[0], pat, body)?;
                    a.extend(b);
                    return Some(a);
                }
                // self.F.iter().flatten() with F: Option<Vec<_>>
                if m.method == "flatten" && m.args.is_empty() {
                    if let Expr::MethodCall(it2) = peel_paren(&m.receiver) {
                        if it2.method == "iter" && it2.args.is_empty() {
                            let (fname, ty) = this.self_field_type(&it2.receiver)?;
                            if ty.starts_with("Option<Vec<") {
                                let recv = &it2.receiver;
                                let v = format_ident!("{}", fname);
                                return Some(vec![parse_quote!(if let Some(#v) = &#recv { for #pat in #v.iter() #body })]);
                            }
                        }
                    }
                    return None;
                }
                // self.F.iter() with F: Option<_> (0 or 1 element)
                if m.method == "iter" && m.args.is_empty() {
                    let (_fname, ty) = this.self_field_type(&m.receiver)?;
                    if ty.starts_with("Option<") && !ty.starts_with("Option<Vec<") {
                        let recv = &m.receiver;
                        return Some(vec![parse_quote!(if let Some(#pat) = &#recv #body)]);
                    }
                    return None;
                }
            }
            None
        }
        // only when an adapter is involved at the top (plain `x.iter()` over a Vec is handled below)
        let top = match peel_paren(&f.expr) {
            Expr::MethodCall(m) => m.method.to_string(),
            _ => return None,
        };
        if top != "chain" && top != "flatten" && top != "iter" {
            return None;
        }
        let stmts = seg(self, &f.expr, pat, body)?;
        Some(expr_block(stmts))
    }

    fn do_for(&mut self, f: ExprForLoop) -> Expr {
        let sp = f.span();
        if f.label.is_some() {
            self.unsupported("labelled loop", sp);
        }
        // `for PAT in A.chain(B)`, `self.F.iter().flatten()` (F: Option<Vec<_>>), `self.F.iter()` (F: Option<_>): the adapters are
        // expanded by their std meaning into the plain `if let` / `for` forms (which are then extracted as usual); only for
        // fields whose declared type is known
        if let Some(rewritten) = self.expand_iter_chain(&f) {
            return self.fold_expr(rewritten);
        }
        // `for PAT in [a, b, c] { BODY }` over an array literal (at most 8 elements, no break / continue in BODY): unrolled
        if let Expr::Array(arr) = peel_paren(&f.expr) {
            struct HasJump(bool);
            impl<'ast> syn::visit::Visit<'ast> for HasJump {
                fn visit_expr_break(&mut self, _: &'ast ExprBreak) { self.0 = true; }
                fn visit_expr_continue(&mut self, _: &'ast ExprContinue) { self.0 = true; }
                fn visit_expr_closure(&mut self, _: &'ast ExprClosure) {}
            }
            let mut hj = HasJump(false);
            syn::visit::Visit::visit_block(&mut hj, &f.body);
            if arr.elems.len() <= 8 && !hj.0 {
                let pat = &*f.pat;
                let body = &f.body;
                let parts: Vec<Stmt> = arr.elems.iter().map(|e| -> Stmt { parse_quote!({ let #pat = #e; #body }) }).collect();
                let unrolled: Expr = parse_quote!({ #(#parts)* });
                return self.fold_expr(unrolled);
            }
        }
        let marker = self.loop_marker(format!("for {} in {}", f.pat.to_token_stream(), expr_to_string(&f.expr)));
        let pat = (*f.pat).clone();
        let iter = peel_paren(&f.expr).clone();
        // `for PAT in X.drain(..)`  →  loop { match X.pop_front() { Some(PAT) => BODY, None => break } }
        if let Expr::MethodCall(m) = &iter {
            if m.method == "drain" && m.args.len() == 1 {
                if let Expr::Range(r) = &m.args[0] {
                    if r.start.is_none() && r.end.is_none() {
                        let recv = self.fold_expr((*m.receiver).clone());
                        self.brk_stack.push(None);
                        let body = self.fold_loop_body(f.body);
                        self.brk_stack.pop();
                        let pat2 = self.fold_pat(pat);
                        return parse_quote!(loop {
                            #marker
                            match #recv.pop_front() {
                                Some(#pat2) => #body,
                                None => { break; }
                            }
                        });
                    }
                }
            }
        }
        // `for PAT in A..B`  →  counting while
        if let Expr::Range(r) = &iter {
            if let (Some(a), Some(b), RangeLimits::HalfOpen(_)) = (&r.start, &r.end, &r.limits) {
                let a2 = self.fold_expr((**a).clone());
                let b2 = self.fold_expr((**b).clone());
                let idx = format_ident!("__i{}", self.cur_loop);
                let end = format_ident!("__end{}", self.cur_loop);
                self.brk_stack.push(None);
                let mut body = self.fold_loop_body(f.body);
                self.brk_stack.pop();
                let pat2 = self.fold_pat(pat);
                let bind: Vec<Stmt> = if matches!(pat2, Pat::Wild(_)) { vec![] } else { vec![parse_quote!(let #pat2 = #idx;)] };
                let mut stmts: Vec<Stmt> = vec![marker];
                stmts.extend(bind);
                stmts.append(&mut body.stmts);
                stmts.push(parse_quote!(#idx += 1;));
                let body = block_of(stmts);
                return parse_quote!({
                    let mut #idx = #a2;
                    let #end = #b2;
                    while #idx < #end #body
                });
            }
        }
        // `for mut x in X` over a local Vec taken by value  →  `while X.len() > 0 { let mut x = X.remove(0); .. }` (same order;
        // the vector is consumed either way)
        if let (Pat::Ident(pi), Expr::Path(pp)) = (&pat, &iter) {
            if pi.mutability.is_some() && pi.by_ref.is_none() && pp.path.segments.len() == 1 {
                let c2 = self.fold_expr(iter.clone());
                self.brk_stack.push(None);
                let mut body = self.fold_loop_body(f.body);
                self.brk_stack.pop();
                let pat2 = self.fold_pat(pat);
                let mut stmts: Vec<Stmt> = vec![marker, parse_quote!(let #pat2 = #c2.remove(0);)];
                stmts.append(&mut body.stmts);
                let body = block_of(stmts);
                return parse_quote!({
                    while #c2.len() > 0 #body
                });
            }
        }
        // `for PAT in &X` / `X.iter()`  →  indexed while
        let coll: Option<Expr> = match &iter {
            Expr::Reference(r) if r.mutability.is_none() => Some((*r.expr).clone()),
            Expr::MethodCall(m) if m.method == "iter" && m.args.is_empty() => Some((*m.receiver).clone()),
            // a plain local that is a reference to a collection (`for x in xs` with `xs: &Vec<_>`)
            Expr::Path(p) if p.path.segments.len() == 1 => Some(iter.clone()),
            _ => None,
        };
        if let Some(c) = coll {
            let c2 = self.fold_expr(c);
            let idx = format_ident!("__i{}", self.cur_loop);
            self.brk_stack.push(None);
            let mut body = self.fold_loop_body(f.body);
            self.brk_stack.pop();
            let pat2 = self.fold_pat(pat);
            let mut stmts: Vec<Stmt> = vec![marker, parse_quote!(let #pat2 = &#c2[#idx];)];
            stmts.append(&mut body.stmts);
            stmts.push(parse_quote!(#idx += 1;));
            let body = block_of(stmts);
            return parse_quote!({
                let mut #idx: usize = 0;
                while #idx < #c2.len() #body
            });
        }
        self.unsupported("for loop over this iterator", sp);
        parse_quote!(())
    }

    fn do_closure(&mut self, mut c: ExprClosure) -> Expr {
        // `_` parameters are rejected by Verus
        let mut k = 0usize;
        for p in c.inputs.iter_mut() {
            if let Pat::Wild(_) = p {
                let id = format_ident!("_c{}", k);
                *p = parse_quote!(#id);
                k += 1;
            }
        }
        let saved = self.env.clone();
        self.env.raii.clear();
        let body = self.fold_expr(*c.body);
        self.env = saved;
        c.body = Box::new(body);
        c.attrs.clear();
        Expr::Closure(c)
    }

    fn do_path(&mut self, p: ExprPath) -> Expr {
        // associated constants modelled by functions (`Self::DISCARD_SQL` → `vx_discard_sql()`)
        if p.qself.is_none() {
            let full = path_to_string(&p.path);
            if let Some((_, to)) = self.u.constfn.iter().find(|(a, _)| *a == full) {
                let f = ident(to);
                return parse_quote!(#f());
            }
        }
        if p.qself.is_none() && p.path.segments.len() == 1 {
            let n = p.path.segments[0].ident.to_string();
            if n == "self" {
                if let Some(r) = &self.self_rename {
                    return parse_quote!(#r);
                }
            }
            if let Some((_, t)) = self.env.aliases.iter().rev().find(|(a, _)| *a == n) {
                return t.clone();
            }
        }
        let path = self.fold_path(p.path);
        Expr::Path(ExprPath { attrs: vec![], qself: p.qself, path })
    }

    fn do_macro(&mut self, m: ExprMacro) -> Expr {
        let name = path_to_string(&m.mac.path);
        if name == "__vx_tryerr" {
            // the error value a `?` of an inlined helper returns (tools/vx/src/inline.rs): converted as `?` converts
            let e: Expr = syn::parse2::<Expr>(m.mac.tokens.clone()).expect("__vx_tryerr");
            let e = self.fold_expr(e);
            if self.spec.attrs.iter().any(|a| a == "tryinto") {
                return parse_quote!(Err(vx_into(#e)));
            }
            return parse_quote!(Err(#e));
        }
        if name == "__vx_raw" {
            // replacement text of a lifted closure (`closurecall`): emitted as written
            return syn::parse2::<Expr>(m.mac.tokens.clone()).expect("__vx_raw");
        }
        // `panic!(..)` / `unreachable!(..)` in a function that can unwind: the panic exit
        if (name == "panic" || name == "unreachable") && self.ctl {
            let drops = self.unwind_drops();
            return parse_quote!({ #(#drops)* return Ctl::Unwind; });
        }
        // ... in a function that cannot unwind: the statement must be provably unreachable ("never panics")
        if name == "panic" || name == "unreachable" {
            return parse_quote!(vx_unreachable());
        }
        if name == "matches" {
            // matches!(e, pat) → match e { pat => true, _ => false }
            struct MatchesArgs {
                e: Expr,
                pat: Pat,
                guard: Option<Expr>,
            }
            impl syn::parse::Parse for MatchesArgs {
                fn parse(input: syn::parse::ParseStream) -> Result<Self> {
                    let e: Expr = input.parse()?;
                    let _: Token![,] = input.parse()?;
                    let pat = Pat::parse_multi_with_leading_vert(input)?;
                    let guard = if input.peek(Token![if]) {
                        let _: Token![if] = input.parse()?;
                        Some(input.parse::<Expr>()?)
                    } else {
                        None
                    };
                    let _ = input.parse::<Option<Token![,]>>();
                    Ok(MatchesArgs { e, pat, guard })
                }
            }
            match syn::parse2::<MatchesArgs>(m.mac.tokens.clone()) {
                Ok(a) => {
                    let e = self.fold_expr(a.e);
                    let pat = self.fold_pat(a.pat);
                    if let Some(g) = a.guard {
                        let g = self.fold_expr(g);
                        return parse_quote!(match #e { #pat => #g, _ => false });
                    }
                    return parse_quote!(match #e { #pat => true, _ => false });
                }
                Err(_) => self.unsupported("matches! arguments", m.span()),
            }
        }
        // `format!("{}", e)` is `e.to_string()` by definition (`ToString` is implemented through `Display`); also `format!("{e}")`
        if name == "format" {
            let parser = syn::punctuated::Punctuated::<Expr, Token![,]>::parse_terminated;
            if let Ok(args) = syn::parse::Parser::parse2(parser, m.mac.tokens.clone()) {
                let args: Vec<Expr> = args.into_iter().collect();
                if let Some(Expr::Lit(ExprLit { lit: Lit::Str(ls), .. })) = args.first() {
                    let f = ls.value();
                    let arg: Option<Expr> = if f == "{}" && args.len() == 2 {
                        Some(args[1].clone())
                    } else if args.len() == 1 && f.starts_with('{') && f.ends_with('}') && f.len() > 2 && f[1..f.len() - 1].chars().all(|c| c.is_alphanumeric() || c == '_') {
                        syn::parse_str::<Expr>(&f[1..f.len() - 1]).ok()
                    } else {
                        None
                    };
                    if let Some(a) = arg {
                        let call: Expr = parse_quote!((#a).to_string());
                        return self.fold_expr(call);
                    }
                }
            }
        }
        if name == "format" && self.u.strlits {
            // the text of a formatted message is opaque
            return parse_quote!(vx_format());
        }
        // `assert!(c, ..)` / `debug_assert!(c, ..)` (and the `_eq` / `_ne` forms): a run-time check that panics when it fails.
        // "Never panics" becomes a proof obligation: the condition is evaluated as written and must be provably true.
        if matches!(name.as_str(), "assert" | "debug_assert" | "assert_eq" | "debug_assert_eq" | "assert_ne" | "debug_assert_ne") {
            let parser = syn::punctuated::Punctuated::<Expr, Token![,]>::parse_terminated;
            if let Ok(args) = syn::parse::Parser::parse2(parser, m.mac.tokens.clone()) {
                let args: Vec<Expr> = args.into_iter().collect();
                let cond: Option<Expr> = if name.ends_with("_eq") && args.len() >= 2 {
                    let (a, b) = (self.fold_expr(args[0].clone()), self.fold_expr(args[1].clone()));
                    Some(parse_quote!(#a == #b))
                } else if name.ends_with("_ne") && args.len() >= 2 {
                    let (a, b) = (self.fold_expr(args[0].clone()), self.fold_expr(args[1].clone()));
                    Some(parse_quote!(#a != #b))
                } else if !args.is_empty() && !name.ends_with("_eq") && !name.ends_with("_ne") {
                    Some(self.fold_expr(args[0].clone()))
                } else {
                    None
                };
                if let Some(c) = cond {
                    return parse_quote!({ let __a: bool = #c; assert(__a); });
                }
            }
            self.unsupported(&format!("macro {}! arguments", name), m.span());
        }
        if name == "vec" {
            // `vec![a, b, ..]` (list form): the elements are folded like any other expression; vstd gives `vec!` its meaning
            let parser = syn::punctuated::Punctuated::<Expr, Token![,]>::parse_terminated;
            match syn::parse::Parser::parse2(parser, m.mac.tokens.clone()) {
                Ok(elems) => {
                    let elems: Vec<Expr> = elems.into_iter().map(|e| self.fold_expr(e)).collect();
                    return parse_quote!(vec![#(#elems),*]);
                }
                Err(_) => self.unsupported("vec! in repeat form", m.span()),
            }
        }
        if name == "format" || name == "unreachable" || name == "panic" {
            self.unsupported(&format!("macro {}!", name), m.span());
        }
        Expr::Macro(m)
    }

    fn do_field(&mut self, f: ExprField) -> Expr {
        // R6: `self.pool` / `this.pool`  →  explicit parameter
        if let Some((field, param)) = &self.backparam {
            if let Member::Named(id) = &f.member {
                if id == field {
                    if let Some(b) = path_single_ident(&f.base) {
                        if b == "self" || b == "this" {
                            let p = ident(param);
                            return parse_quote!(#p);
                        }
                    }
                }
            }
        }
        let base = self.fold_expr(*f.base);
        Expr::Field(ExprField { attrs: vec![], base: Box::new(base), dot_token: f.dot_token, member: f.member })
    }

    fn do_async_block(&mut self, a: ExprAsync) -> Expr {
        // R7: `async { E.await.<chain> }` with E an external future  →  `E.then_(|__v| __v.<chain>)`
        let sp = a.span();
        if a.block.stmts.len() == 1 {
            if let Stmt::Expr(e, None) = &a.block.stmts[0] {
                // find the (single) await at the head of the method chain
                fn split(e: &Expr) -> Option<(Expr, Vec<ExprMethodCall>)> {
                    match e {
                        Expr::Await(a) => Some(((*a.base).clone(), vec![])),
                        Expr::MethodCall(m) => {
                            let (b, mut chain) = split(&m.receiver)?;
                            chain.push(m.clone());
                            Some((b, chain))
                        }
                        _ => None,
                    }
                }
                if let Some((base, chain)) = split(e) {
                    let b2 = self.fold_expr(base);
                    if chain.len() == 1 && chain[0].method == "map_err" && chain[0].args.len() == 1 {
                        if let Expr::Closure(cl) = &chain[0].args[0] {
                            if cl.inputs.len() == 1 && matches!(cl.inputs[0], Pat::Wild(_)) && matches!(&*cl.body, Expr::Path(_)) {
                                let c = self.fold_expr((*cl.body).clone());
                                return parse_quote!(#b2.map_err_(#c));
                            }
                        }
                    }
                    let mut body: Expr = parse_quote!(__v);
                    for mut m in chain.into_iter() {
                        m.receiver = Box::new(body);
                        let args: Vec<Expr> = m.args.iter().cloned().map(|a| self.fold_expr(a)).collect();
                        m.args = args.into_iter().collect();
                        body = Expr::MethodCall(m);
                    }
                    return parse_quote!(#b2.then_(|__v| #body));
                }
            }
        }
        self.unsupported("async block of this shape", sp);
        parse_quote!(())
    }

    fn do_opassign(&mut self, b: ExprBinary) -> Expr {
        let op = b.op.to_token_stream().to_string();
        let field = last_field(&b.left);
        let local = path_single_ident(&b.left);
        let left = self.fold_expr(*b.left);
        let right = self.fold_expr(*b.right);
        let e = Expr::Binary(ExprBinary { attrs: vec![], left: Box::new(left), op: b.op, right: Box::new(right) });
        match field {
            Some(f) => self.wrap_op(e, &format!("{}{}", f, op), false),
            None => match local {
                Some(l) => self.wrap_op(e, &format!("{}{}", l, op), false),
                None => e,
            },
        }
    }
}

fn is_compound_assign(op: &BinOp) -> bool {
    matches!(
        op,
        BinOp::AddAssign(_) | BinOp::SubAssign(_) | BinOp::MulAssign(_) | BinOp::DivAssign(_) | BinOp::RemAssign(_)
            | BinOp::BitXorAssign(_) | BinOp::BitAndAssign(_) | BinOp::BitOrAssign(_) | BinOp::ShlAssign(_) | BinOp::ShrAssign(_)
    )
}

impl<'a> Fold for Elab<'a> {
    fn fold_expr(&mut self, e: Expr) -> Expr {
        match e {
            Expr::Await(a) => self.do_await(a),
            Expr::Try(t) => self.do_try(t),
            Expr::Return(r) => self.do_return(r),
            Expr::Break(b) => self.do_break(b),
            Expr::MethodCall(m) => self.do_method(m),
            Expr::Call(c) => self.do_call(c),
            Expr::Struct(s) => self.do_struct(s),
            Expr::If(i) => self.do_if(i),
            Expr::Match(m) => self.do_match(m),
            Expr::Loop(l) => self.do_loop(l),
            Expr::While(w) => self.do_while(w),
            Expr::ForLoop(f) => self.do_for(f),
            Expr::Closure(c) => self.do_closure(c),
            Expr::Path(p) => self.do_path(p),
            Expr::Macro(m) => self.do_macro(m),
            Expr::Field(f) => self.do_field(f),
            Expr::Async(a) => self.do_async_block(a),
            Expr::Block(b) => {
                if b.label.is_some() {
                    self.unsupported("labelled block", b.span());
                }
                let b2 = self.fold_block_scoped(b.block, vec![]);
                Expr::Block(ExprBlock { attrs: vec![], label: None, block: b2 })
            }
            Expr::Binary(b) if is_compound_assign(&b.op) => self.do_opassign(b),
            Expr::Assign(a) if last_field(&a.left).is_some() => {
                let f = last_field(&a.left).unwrap();
                let left = self.fold_expr(*a.left);
                let right = self.fold_expr(*a.right);
                self.value_consumes(&right);
                let e = Expr::Assign(ExprAssign { attrs: vec![], left: Box::new(left), eq_token: a.eq_token, right: Box::new(right) });
                self.wrap_op(e, &format!("{}=", f), false)
            }
            Expr::Lit(ExprLit { lit: Lit::Str(ls), .. }) if self.u.strlits => {
                parse_quote!({ __vx_reveal!(#ls); vx_lit(#ls) })
            }
            Expr::Unsafe(u) => {
                self.unsupported("unsafe block", u.span());
                Expr::Unsafe(u)
            }
            Expr::Continue(c) => {
                Expr::Continue(c)
            }
            other => fold::fold_expr(self, other),
        }
    }

    fn fold_block(&mut self, b: Block) -> Block {
        self.fold_block_scoped(b, vec![])
    }

    fn fold_type(&mut self, t: Type) -> Type {
        let mut t = t;
        let mut rw = crate::ty::TyRw { u: self.u, in_unit_ty: false };
        syn::visit_mut::VisitMut::visit_type_mut(&mut rw, &mut t);
        t
    }

    fn fold_path(&mut self, p: Path) -> Path {
        // expression / pattern paths: drop generic args naming dropped generics, rename
        let mut p = p;
        // whole-prefix renames (`tokio_postgres::Config::new` → `PgConfig::new`)
        {
            let segs: Vec<String> = p.segments.iter().map(|s| s.ident.to_string()).collect();
            for (from, to) in self.u.pathrename.iter() {
                let fs: Vec<&str> = from.split("::").collect();
                if segs.len() >= fs.len() && segs.iter().zip(fs.iter()).all(|(a, b)| a == b) {
                    let mut new_segs: Vec<PathSegment> = to.split("::").map(|t| PathSegment { ident: ident(t), arguments: PathArguments::None }).collect();
                    new_segs.extend(p.segments.iter().skip(fs.len()).cloned());
                    p.segments = new_segs.into_iter().collect();
                    p.leading_colon = None;
                    break;
                }
            }
        }
        for seg in p.segments.iter_mut() {
            let mut rw = crate::ty::TyRw { u: self.u, in_unit_ty: false };
            syn::visit_mut::VisitMut::visit_path_arguments_mut(&mut rw, &mut seg.arguments);
        }
        // erased wrapper prefix e.g. `Arc::downgrade` is handled by field dropping
        if p.segments.len() >= 1 {
            let first = p.segments[0].ident.to_string();
            if let Some((_, to)) = self.u.tyrename.iter().find(|(a, _)| *a == first) {
                p.segments[0].ident = ident(to);
            }
        }
        p
    }

    fn fold_attribute(&mut self, a: Attribute) -> Attribute {
        a
    }
}

pub fn quote_block(b: &Block) -> proc_macro2::TokenStream {
    quote!(#b)
}


/// Header texts (whitespace removed) of all loops of a function body, in source order; same texts as `loop_marker` computes.
pub fn collect_loop_headers(b: &Block) -> Vec<String> {
    struct V(Vec<String>);
    fn norm(s: String) -> String {
        s.chars().filter(|c| !c.is_whitespace()).collect()
    }
    impl<'ast> syn::visit::Visit<'ast> for V {
        fn visit_expr_while(&mut self, w: &'ast ExprWhile) {
            self.0.push(norm(format!("while {}", expr_to_string(&w.cond))));
            syn::visit::visit_expr_while(self, w);
        }
        fn visit_expr_loop(&mut self, l: &'ast ExprLoop) {
            self.0.push("loop".to_string());
            syn::visit::visit_expr_loop(self, l);
        }
        fn visit_expr_for_loop(&mut self, f: &'ast ExprForLoop) {
            self.0.push(norm(format!("for {} in {}", f.pat.to_token_stream(), expr_to_string(&f.expr))));
            syn::visit::visit_expr_for_loop(self, f);
        }
        fn visit_expr_method_call(&mut self, m: &'ast ExprMethodCall) {
            if m.method == "retain" && m.args.len() == 1 && matches!(&m.args[0], Expr::Closure(_)) {
                self.0.push(norm(format!("retain {}", expr_to_string(&m.receiver))));
            }
            if m.method == "collect" && m.args.is_empty() {
                if let Expr::MethodCall(mm) = peel_paren(&m.receiver) {
                    if mm.method == "map" && mm.args.len() == 1 {
                        if let (Expr::Closure(_), Expr::MethodCall(it)) = (&mm.args[0], peel_paren(&mm.receiver)) {
                            if it.method == "iter" {
                                self.0.push(norm(format!("collect {}", expr_to_string(&it.receiver))));
                            }
                        }
                    }
                }
            }
            syn::visit::visit_expr_method_call(self, m);
        }
    }
    let mut v = V(vec![]);
    syn::visit::Visit::visit_block(&mut v, b);
    v.0
}
