// Trusted model of redis::sentinel::SentinelClient::build: the client asks exactly the sentinels named by `params`, in
// order, for the service `service_name`, connects to the nodes with `node_connection_info` (None = the redis crate's
// default) and wants servers of `server_type`; it fails exactly on malformed parameters or an empty list, never panics.
pub struct SentinelClient {
    pub targets: Ghost<Seq<Target>>,
    pub service_name: Ghost<Seq<char>>,
    pub node: Ghost<Option<RSentinelNodeConnectionInfo>>,
    pub server_type: Ghost<RSentinelServerType>,
}
impl SentinelClient {
    #[verifier::external_body]
    pub fn build<T: IntoConnectionInfo>(params: Vec<T>, service_name: Str, node_connection_info: Option<RSentinelNodeConnectionInfo>, server_type: RSentinelServerType) -> (r: Result<SentinelClient, RedisError>)
        ensures r matches Ok(c) ==> c.targets@ == targets_of(params@) && c.service_name@ == service_name@ && c.node@ == node_connection_info && c.server_type@ == server_type && params@.len() > 0
    { unimplemented!() }
}
// tokio::sync::Mutex::new (the async mutex around the client): a plain wrapper here
pub struct TMutex<T> { pub data: T }
impl<T> TMutex<T> {
    pub fn new(t: T) -> (r: Self) ensures r.data == t { TMutex { data: t } }
}
// expected conversions of the sentinel-specific mirrored types (C19)
pub open spec fn sst_to_r(t: SentinelServerType) -> RSentinelServerType { match t { SentinelServerType::Master => RSentinelServerType::Master, SentinelServerType::Replica => RSentinelServerType::Replica } }
pub open spec fn sst_from_r(t: RSentinelServerType) -> SentinelServerType { match t { RSentinelServerType::Master => SentinelServerType::Master, RSentinelServerType::Replica => SentinelServerType::Replica } }
pub open spec fn tls_to_r(t: TlsMode) -> RTlsMode { match t { TlsMode::Secure => RTlsMode::Secure, TlsMode::Insecure => RTlsMode::Insecure } }
pub open spec fn tls_from_r(t: RTlsMode) -> TlsMode { match t { RTlsMode::Secure => TlsMode::Secure, RTlsMode::Insecure => TlsMode::Insecure } }
pub open spec fn node_to_r(i: SentinelNodeConnectionInfo) -> RSentinelNodeConnectionInfo {
    RSentinelNodeConnectionInfo {
        tls_mode: match i.tls_mode { Some(m) => Some(tls_to_r(m)), None => None },
        redis_connection_info: match i.redis_connection_info { Some(c) => Some(rci_to_r(c)), None => None },
    }
}
pub open spec fn node_from_r(i: RSentinelNodeConnectionInfo) -> SentinelNodeConnectionInfo {
    SentinelNodeConnectionInfo {
        tls_mode: match i.tls_mode { Some(m) => Some(tls_from_r(m)), None => None },
        redis_connection_info: match i.redis_connection_info { Some(c) => Some(rci_from_r(c)), None => None },
    }
}
impl FromSpecImpl<SentinelServerType> for RSentinelServerType { open spec fn obeys_from_spec() -> bool { true } open spec fn from_spec(a: SentinelServerType) -> Self { sst_to_r(a) } }
impl FromSpecImpl<RSentinelServerType> for SentinelServerType { open spec fn obeys_from_spec() -> bool { true } open spec fn from_spec(a: RSentinelServerType) -> Self { sst_from_r(a) } }
impl FromSpecImpl<TlsMode> for RTlsMode { open spec fn obeys_from_spec() -> bool { true } open spec fn from_spec(a: TlsMode) -> Self { tls_to_r(a) } }
impl FromSpecImpl<RTlsMode> for TlsMode { open spec fn obeys_from_spec() -> bool { true } open spec fn from_spec(a: RTlsMode) -> Self { tls_from_r(a) } }
impl FromSpecImpl<SentinelNodeConnectionInfo> for RSentinelNodeConnectionInfo { open spec fn obeys_from_spec() -> bool { true } open spec fn from_spec(a: SentinelNodeConnectionInfo) -> Self { node_to_r(a) } }
impl FromSpecImpl<RSentinelNodeConnectionInfo> for SentinelNodeConnectionInfo { open spec fn obeys_from_spec() -> bool { true } open spec fn from_spec(a: RSentinelNodeConnectionInfo) -> Self { node_from_r(a) } }
pub proof fn lemma_roundtrip_node(i: SentinelNodeConnectionInfo)
    ensures
        node_from_r(node_to_r(i)) == i, // [C19 sentinel_conversions.node_info_roundtrip_is_lossless]
{}
pub proof fn lemma_roundtrip_node_r(i: RSentinelNodeConnectionInfo)
    ensures
        node_to_r(node_from_r(i)) == i, // [C19 sentinel_conversions.node_info_reverse_roundtrip_is_lossless]
        forall|t: SentinelServerType| sst_from_r(sst_to_r(t)) == t, // [C19 sentinel_conversions.server_type_roundtrip]
        forall|t: TlsMode| tls_from_r(tls_to_r(t)) == t, // [C19 sentinel_conversions.tls_mode_roundtrip]
{}
// derive(Clone) (A5): structural
impl Clone for SentinelNodeConnectionInfo {
    #[verifier::external_body]
    fn clone(&self) -> (r: Self) ensures r == *self { unimplemented!() }
}
