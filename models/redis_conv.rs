// Expected conversions between the mirrored connection types and the `redis` crate's (C19), shared by the units rdc, rdk, rds.
// Spec functions only; the extracted `From` impls of every unit are verified against them.
// ---- expected conversions (C19: address, database, username, password and protocol are preserved) ----
pub open spec fn proto_to_r(p: ProtocolVersion) -> RProtocolVersion { match p { ProtocolVersion::RESP2 => RProtocolVersion::RESP2, ProtocolVersion::RESP3 => RProtocolVersion::RESP3 } }
pub open spec fn proto_from_r(p: RProtocolVersion) -> ProtocolVersion { match p { RProtocolVersion::RESP2 => ProtocolVersion::RESP2, RProtocolVersion::RESP3 => ProtocolVersion::RESP3 } }
pub open spec fn addr_to_r(a: ConnectionAddr) -> RConnectionAddr {
    match a {
        ConnectionAddr::Tcp(h, p) => RConnectionAddr::Tcp(h, p),
        ConnectionAddr::TcpTls { host, port, insecure } => RConnectionAddr::TcpTls { host, port, insecure, tls_params: None },
        ConnectionAddr::Unix(p) => RConnectionAddr::Unix(p),
    }
}
pub open spec fn addr_from_r(a: RConnectionAddr) -> ConnectionAddr {
    match a {
        RConnectionAddr::Tcp(h, p) => ConnectionAddr::Tcp(h, p),
        RConnectionAddr::TcpTls { host, port, insecure, tls_params } => ConnectionAddr::TcpTls { host, port, insecure },
        RConnectionAddr::Unix(p) => ConnectionAddr::Unix(p),
    }
}
pub open spec fn rci_to_r(i: RedisConnectionInfo) -> RRedisConnectionInfo { RRedisConnectionInfo { db: i.db, username: i.username, password: i.password, protocol: proto_to_r(i.protocol) } }
pub open spec fn rci_from_r(i: RRedisConnectionInfo) -> RedisConnectionInfo { RedisConnectionInfo { db: i.db, username: i.username, password: i.password, protocol: proto_from_r(i.protocol) } }
pub open spec fn info_to_r(i: ConnectionInfo) -> RConnectionInfo { RConnectionInfo { addr: addr_to_r(i.addr), redis: rci_to_r(i.redis) } }
pub open spec fn info_from_r(i: RConnectionInfo) -> ConnectionInfo { ConnectionInfo { addr: addr_from_r(i.addr), redis: rci_from_r(i.redis) } }

impl FromSpecImpl<ConnectionAddr> for RConnectionAddr { open spec fn obeys_from_spec() -> bool { true } open spec fn from_spec(a: ConnectionAddr) -> Self { addr_to_r(a) } }
impl FromSpecImpl<RConnectionAddr> for ConnectionAddr { open spec fn obeys_from_spec() -> bool { true } open spec fn from_spec(a: RConnectionAddr) -> Self { addr_from_r(a) } }
impl FromSpecImpl<RedisConnectionInfo> for RRedisConnectionInfo { open spec fn obeys_from_spec() -> bool { true } open spec fn from_spec(a: RedisConnectionInfo) -> Self { rci_to_r(a) } }
impl FromSpecImpl<RRedisConnectionInfo> for RedisConnectionInfo { open spec fn obeys_from_spec() -> bool { true } open spec fn from_spec(a: RRedisConnectionInfo) -> Self { rci_from_r(a) } }
impl FromSpecImpl<ConnectionInfo> for RConnectionInfo { open spec fn obeys_from_spec() -> bool { true } open spec fn from_spec(a: ConnectionInfo) -> Self { info_to_r(a) } }
impl FromSpecImpl<RConnectionInfo> for ConnectionInfo { open spec fn obeys_from_spec() -> bool { true } open spec fn from_spec(a: RConnectionInfo) -> Self { info_from_r(a) } }
impl FromSpecImpl<RedisError> for ConfigError { open spec fn obeys_from_spec() -> bool { true } open spec fn from_spec(e: RedisError) -> Self { ConfigError::Redis(e) } }

// round trips: ours -> redis -> ours is the identity; redis -> ours -> redis loses only `tls_params` (documented)
pub proof fn lemma_roundtrip_info(i: ConnectionInfo)
    ensures
        info_from_r(info_to_r(i)) == i, // [C19 conversions.roundtrip_is_lossless]
{}
pub proof fn lemma_roundtrip_r(i: RConnectionInfo)
    ensures
        info_to_r(info_from_r(i)).redis == i.redis, // [C19 conversions.reverse_roundtrip_keeps_redis_part]
        !(i.addr is TcpTls) ==> info_to_r(info_from_r(i)).addr == i.addr, // [C19 conversions.reverse_roundtrip_keeps_non_tls_addr]
{}

// derive(Clone) / derive(Default) (A5): structural
impl Clone for ConnectionInfo {
    #[verifier::external_body]
    fn clone(&self) -> (r: Self) ensures r == *self { unimplemented!() }
}
pub open spec fn default_rci() -> RedisConnectionInfo { RedisConnectionInfo { db: 0, username: None, password: None, protocol: ProtocolVersion::RESP2 } }
// #[derive(Default)] of the two mirrored types
impl Default for RedisConnectionInfo {
    #[verifier::external_body]
    fn default() -> (r: Self) ensures r == default_rci() { unimplemented!() }
}
impl Default for ConnectionInfo {
    fn default() -> (r: Self) ensures r.redis == default_rci(), (r.addr matches ConnectionAddr::Tcp(h, p) && h@ == "127.0.0.1"@ && p == 6379)
    { ConnectionInfo { addr: ConnectionAddr::default(), redis: RedisConnectionInfo::default() } }
}
impl IntoConnectionInfoSpec for ConnectionInfo {
    open spec fn target_spec(self) -> Target { Target::Info(info_to_r(self)) }
}

