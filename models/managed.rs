// Trusted models for the managed pool unit (R3: calls into user code are uninterpreted external calls).

// ---- std::time::Instant (monotone clock, trusted) -----------------------------------------------------------
#[derive(Clone, Copy)]
pub struct Instant { pub t: u64 }
impl Instant {
    // `observed`: has been returned by an earlier `Instant::now()`
    pub uninterp spec fn observed(self) -> bool;
    #[verifier::external_body]
    pub fn now() -> (r: Instant)
        ensures r.observed(), forall|i: Instant| #[trigger] i.observed() ==> i.t <= r.t
    { unimplemented!() }
    // Instant::elapsed(): the time since this instant (a function of the instant and of "now", which is opaque)
    pub uninterp spec fn elapsed_spec(self) -> Duration;
    #[verifier::external_body]
    pub fn elapsed(&self) -> (r: Duration) ensures r == self.elapsed_spec() { unimplemented!() }
}

// ---- the pooled value `M::Type` and the manager's error `M::Error` ----------------------------------------
#[verifier::external_body]
pub struct MType { _p: () }
#[verifier::external_body]
pub struct MError { _p: () }


// what user code has done to one pooled value, in order (ghost history carried by the value itself)
pub enum Event {
    Created,
    Hook { hid: int, metrics: Metrics, ok: bool },
    Recycle { metrics: Metrics, ok: bool },
    Predicate { metrics: Metrics, keep: bool },
    Detached,
}

impl MType {
    pub uninterp spec fn id(&self) -> int;
    pub uninterp spec fn hist(&self) -> Seq<Event>;
}

// ---- the `Manager` (user code): arbitrary outcomes, effects recorded in the object's history ----------------
pub struct Mgr { pub tag: u8 }

impl Mgr {
    // Manager::create() — eager model of the returned future (DESIGN.md §4): the value exists iff it completes with Ok
    #[verifier::external_body]
    pub fn create(&self) -> (f: ExtFut<Result<MType, MError>>)
        ensures f.completes() ==> (f.value() matches Ok(o) ==> o.hist() == seq![Event::Created])
    { unimplemented!() }

    // Manager::recycle(&mut obj, &metrics)
    #[verifier::external_body]
    pub fn recycle(&self, obj: &mut MType, metrics: &Metrics) -> (f: ExtFut<Result<(), RecycleError<MError>>>)
        ensures
            final(obj).id() == old(obj).id(),
            f.polled() ==> final(obj).hist() == old(obj).hist().push(Event::Recycle { metrics: *metrics, ok: f.completes() && f.value().is_ok() }),
            !f.polled() ==> final(obj).hist() == old(obj).hist(),
    { unimplemented!() }

    // Manager::detach(&mut obj)
    #[verifier::external_body]
    pub fn detach(&self, obj: &mut MType)
        ensures final(obj).id() == old(obj).id(), final(obj).hist() == old(obj).hist().push(Event::Detached)
    { unimplemented!() }
}

// ---- hooks: boxed closures become opaque values; calling one is an external call ------------------------------
#[verifier::external_body]
pub struct SyncHookFn { _p: () }
#[verifier::external_body]
pub struct AsyncHookFn { _p: () }

impl SyncHookFn {
    // identity of the registered closure
    pub uninterp spec fn hid(&self) -> int;
    #[verifier::external_body]
    pub fn call_(&self, obj: &mut MType, metrics: &Metrics) -> (r: Result<(), HookError<MError>>)
        ensures final(obj).id() == old(obj).id(),
            final(obj).hist() == old(obj).hist().push(Event::Hook { hid: self.hid(), metrics: *metrics, ok: r.is_ok() })
    { unimplemented!() }
}
impl AsyncHookFn {
    pub uninterp spec fn hid(&self) -> int;
    // calling the hook and awaiting the boxed future in place; Unwind = cancelled / panicked while pending
    #[verifier::external_body]
    pub fn call_async_(&self, obj: &mut MType, metrics: &Metrics) -> (r: Ctl<Result<(), HookError<MError>>>)
        ensures final(obj).id() == old(obj).id(),
            final(obj).hist() == old(obj).hist().push(Event::Hook { hid: self.hid(), metrics: *metrics, ok: r matches Ctl::Done(Ok(_)) })
    { unimplemented!() }
}

// Cow<'static, str> payload of error messages: opaque
#[verifier::external_body]
pub struct CowStr { _p: () }

// std::collections::VecDeque methods without a vstd spec (A5)
// VecDeque::is_empty has no vstd specification (A5)
pub assume_specification<T, A: core::alloc::Allocator>[VecDeque::<T, A>::is_empty](v: &VecDeque<T, A>) -> (r: bool)
    ensures r == (v@.len() == 0);

// VecDeque::get has no vstd specification (A5)
pub assume_specification<T, A: core::alloc::Allocator>[VecDeque::<T, A>::get](v: &VecDeque<T, A>, i: usize) -> (r: Option<&T>)
    ensures (match r { Some(x) => i < v@.len() && *x == v@[i as int], None => i >= v@.len() });

// reserve / reserve_exact change the capacity only (VecDeque and Vec)
pub trait VxSeqLike<T>: Sized { spec fn seq(&self) -> Seq<T>; }
impl<T> VxSeqLike<T> for VecDeque<T> { open spec fn seq(&self) -> Seq<T> { self@ } }
impl<T> VxSeqLike<T> for Vec<T> { open spec fn seq(&self) -> Seq<T> { self@ } }
#[verifier::external_body]
pub fn vx_reserve_exact<T, C: VxSeqLike<T>>(v: &mut C, additional: usize)
    ensures final(v).seq() == old(v).seq()
{ unimplemented!() }

// the user predicate of Pool::retain (R3): an external FnMut; every call logs the object it saw, the metrics it was
// given and its verdict
pub struct Pred { pub calls: Ghost<Seq<(int, Metrics, bool)>> }
impl Pred {
    #[verifier::external_body]
    pub fn call_(&mut self, obj: &MType, metrics: Metrics) -> (r: bool)
        ensures final(self).calls@ == old(self).calls@.push((obj.id(), metrics, r))
    { unimplemented!() }
}

#[verifier::external_body]
pub fn vx_swap_remove_back<T>(v: &mut VecDeque<T>, i: usize) -> (r: Option<T>)
    ensures
        i >= old(v)@.len() ==> r.is_none() && final(v)@ == old(v)@,
        i < old(v)@.len() ==> r == Some(old(v)@[i as int]) && final(v)@ == (if i as int == old(v)@.len() - 1 { old(v)@.drop_last() } else { old(v)@.update(i as int, old(v)@.last()).drop_last() }),
{ unimplemented!() }
#[verifier::external_body]
pub fn vx_swap_remove_front<T>(v: &mut VecDeque<T>, i: usize) -> (r: Option<T>)
    ensures
        i >= old(v)@.len() ==> r.is_none() && final(v)@ == old(v)@,
        i < old(v)@.len() ==> r == Some(old(v)@[i as int]) && final(v)@ == (if i == 0 { old(v)@.drop_first() } else { old(v)@.update(i as int, old(v)@.first()).drop_first() }),
{ unimplemented!() }
// std::mem::take on the idle queue and VecDeque::append (no vstd spec; A5)
#[verifier::external_body]
pub fn vx_mem_take_deque<T>(v: &mut VecDeque<T>) -> (r: VecDeque<T>)
    ensures r@ == old(v)@, final(v)@.len() == 0
{ unimplemented!() }
#[verifier::external_body]
pub fn vx_deque_append<T>(a: &mut VecDeque<T>, b: &mut VecDeque<T>)
    ensures final(a)@ == old(a)@ + old(b)@, final(b)@.len() == 0
{ unimplemented!() }
// VecDeque::truncate / shrink_to (no vstd spec; A5): keep the first `n` elements / capacity only
#[verifier::external_body]
pub fn vx_truncate<T>(v: &mut VecDeque<T>, n: usize)
    ensures final(v)@ == (if n < old(v)@.len() { old(v)@.take(n as int) } else { old(v)@ })
{ unimplemented!() }
#[verifier::external_body]
pub fn vx_shrink_to<T>(v: &mut VecDeque<T>, n: usize)
    ensures final(v)@ == old(v)@
{ unimplemented!() }
#[verifier::external_body]
pub fn vx_shrink_to_fit<T>(v: &mut VecDeque<T>)
    ensures final(v)@ == old(v)@
{ unimplemented!() }
