// std::time::Instant for the units that only pass Metrics along (the managed unit has its own copy in models/managed.rs)
#[derive(Clone, Copy)]
pub struct Instant { pub t: u64 }
impl Instant {
    pub uninterp spec fn elapsed_spec(self) -> Duration;
    #[verifier::external_body]
    pub fn elapsed(&self) -> (r: Duration) ensures r == self.elapsed_spec() { unimplemented!() }
}
