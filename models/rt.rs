// Trusted model for the runtime unit (rt): tokio / async-std primitives that deadpool_runtime dispatches to.
#[verifier::external_body]
pub struct PanicPayload { _p: () }
// tokio::task::JoinError of a spawn_blocking task: the task panicked (tasks of this kind are never cancelled)
#[verifier::external_body]
pub struct JoinError { _p: () }
impl JoinError {
    #[verifier::external_body]
    pub fn into_panic(self) -> (r: PanicPayload) { unimplemented!() }
}
// the closure handed over: user code that may block and may panic; calling it is only allowed where blocking is allowed
#[verifier::external_body]
#[verifier::reject_recursive_types(R)]
pub struct BlockingFn<R> { _p: core::marker::PhantomData<R> }
impl<R> BlockingFn<R> {
    pub uninterp spec fn outcome(self) -> Ctl<R>;
    #[verifier::external_body]
    pub fn call_(self, blocking: bool) -> (r: R)
        requires
            blocking, // [C14 runtime_never_runs_the_closure_on_the_calling_thread]
    { unimplemented!() }
}
// handed to the runtime's blocking pool: it will run there, to completion
pub uninterp spec fn on_blocking_pool<R>(f: BlockingFn<R>) -> bool;

// tokio::task::spawn_blocking(f) -> JoinHandle; awaiting the handle yields the closure's value, or a JoinError if it panicked;
// dropping the handle detaches the task (it still runs)
#[verifier::external_body]
#[verifier::reject_recursive_types(R)]
pub struct TokioJoinHandle<R> { _p: core::marker::PhantomData<R> }
impl<R> TokioJoinHandle<R> {
    pub uninterp spec fn job(self) -> BlockingFn<R>;
    #[verifier::external_body]
    pub fn await_(self) -> (r: Ctl<Result<R, JoinError>>)
        ensures r matches Ctl::Done(v) ==> (match self.job().outcome() { Ctl::Done(o) => v == Ok::<R, JoinError>(o), Ctl::Unwind => v is Err })
    { unimplemented!() }
}
#[verifier::external_body]
pub fn vx_tokio_spawn_blocking<R>(f: BlockingFn<R>) -> (h: TokioJoinHandle<R>)
    ensures h.job() == f, on_blocking_pool(f)
{ unimplemented!() }
// async_std::task::spawn_blocking(f) -> JoinHandle<R>; awaiting it yields the value (a panic propagates = unwinds)
#[verifier::external_body]
#[verifier::reject_recursive_types(R)]
pub struct AsyncStdJoinHandle<R> { _p: core::marker::PhantomData<R> }
impl<R> AsyncStdJoinHandle<R> {
    pub uninterp spec fn job(self) -> BlockingFn<R>;
    #[verifier::external_body]
    pub fn await_(self) -> (r: Ctl<R>)
        ensures r matches Ctl::Done(v) ==> self.job().outcome() == Ctl::Done(v)
    { unimplemented!() }
}
#[verifier::external_body]
pub fn vx_async_std_spawn_blocking<R>(f: BlockingFn<R>) -> (h: AsyncStdJoinHandle<R>)
    ensures h.job() == f, on_blocking_pool(f)
{ unimplemented!() }

// tokio::time::timeout / async_std::future::timeout: Ok(v) iff the future completed (with v) before the deadline
#[verifier::external_body]
pub struct Elapsed { _p: () }
#[verifier::external_body]
pub fn vx_tokio_timeout<R>(d: Duration, fut: ExtFut<R>) -> (r: Ctl<Result<R, Elapsed>>)
    ensures
        fut.polled(),
        r matches Ctl::Done(Ok(v)) ==> fut.completes() && v == fut.value(),
        r matches Ctl::Done(Err(_)) ==> !fut.completes(),
        r is Unwind ==> !fut.completes(),
{ unimplemented!() }
#[verifier::external_body]
pub fn vx_async_std_timeout<R>(d: Duration, fut: ExtFut<R>) -> (r: Ctl<Result<R, Elapsed>>)
    ensures
        fut.polled(),
        r matches Ctl::Done(Ok(v)) ==> fut.completes() && v == fut.value(),
        r matches Ctl::Done(Err(_)) ==> !fut.completes(),
        r is Unwind ==> !fut.completes(),
{ unimplemented!() }
// tokio::task::try_id(): the id of the current task, if the caller runs inside one (arbitrary here)
#[verifier::external_body]
pub struct TaskId { _p: () }
#[verifier::external_body]
pub fn vx_tokio_try_id() -> (r: Option<TaskId>) { unimplemented!() }
