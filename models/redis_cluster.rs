// Trusted model of redis::cluster::{ClusterClientBuilder, ClusterClient}: the client connects to exactly the nodes named by
// the parameters given to the builder, in order; `build()` fails exactly on malformed parameters (arbitrary), never panics.
pub open spec fn targets_of<T: IntoConnectionInfoSpec>(s: Seq<T>) -> Seq<Target> { Seq::new(s.len(), |i: int| s[i].target_spec()) }
pub struct ClusterClientBuilder { pub targets: Ghost<Seq<Target>>, pub replicas: Ghost<bool> }
pub struct ClusterClient { pub targets: Ghost<Seq<Target>>, pub replicas: Ghost<bool> }
impl ClusterClientBuilder {
    #[verifier::external_body]
    pub fn new<T: IntoConnectionInfo>(params: Vec<T>) -> (r: Self)
        ensures r.targets@ == targets_of(params@), !r.replicas@
    { unimplemented!() }
    #[verifier::external_body]
    pub fn read_from_replicas(self) -> (r: Self)
        ensures r.targets@ == self.targets@, r.replicas@
    { unimplemented!() }
    #[verifier::external_body]
    pub fn build(self) -> (r: Result<ClusterClient, RedisError>)
        ensures r matches Ok(c) ==> c.targets@ == self.targets@ && c.replicas@ == self.replicas@
    { unimplemented!() }
}
