// Trusted primitive models (DESIGN.md §9 A3).  Every `external_body` / `assume_specification` below is an
// assumption and is listed by the assumption scan of `check`.

// R4: result of an await: completed, or the task was cancelled / the callee panicked at this suspension point
pub enum Ctl<R> { Done(R), Unwind }

#[derive(Clone, Copy)]
pub enum Ordering { Relaxed, Release, Acquire, AcqRel, SeqCst }

// ---- tokio::sync::Semaphore -------------------------------------------------------------------------------
pub struct Semaphore { pub ghost permits: int, pub ghost closed: bool }
pub struct SemaphorePermit { pub ghost n: int }
pub enum TryAcquireError { Closed, NoPermits }
pub struct AcquireError { }

impl Semaphore {
    #[verifier::external_body]
    pub fn new(permits: usize) -> (s: Semaphore)
        ensures s.permits == permits, !s.closed
    { unimplemented!() }

    #[verifier::external_body]
    pub fn try_acquire(&mut self) -> (r: Result<SemaphorePermit, TryAcquireError>)
        ensures
            r.is_ok() <==> (!old(self).closed && old(self).permits > 0),
            r matches Ok(p) ==> final(self).permits == old(self).permits - 1 && final(self).closed == old(self).closed && p.n == 1,
            r.is_err() ==> *final(self) == *old(self),
            (r matches Err(TryAcquireError::Closed)) <==> old(self).closed,
    { unimplemented!() }

    // try_acquire_many(n): all or nothing (n == 0 is the idiom used to test for closedness)
    #[verifier::external_body]
    pub fn try_acquire_many(&mut self, n: u32) -> (r: Result<SemaphorePermit, TryAcquireError>)
        ensures
            r.is_ok() <==> (!old(self).closed && old(self).permits >= n),
            r matches Ok(p) ==> final(self).permits == old(self).permits - n && final(self).closed == old(self).closed && p.n == n,
            r.is_err() ==> *final(self) == *old(self),
            (r matches Err(TryAcquireError::Closed)) <==> old(self).closed,
    { unimplemented!() }

    // R4 (eager model of a passed-on future, see DESIGN.md §4): the acquisition happens atomically here iff the
    // future is going to complete; a future that does not complete (dropped, deadline first) leaves no trace.
    // `completes ==> permits > 0 || closed` is the blocking condition.
    #[verifier::external_body]
    pub fn acquire(&mut self) -> (f: ExtFut<Result<SemaphorePermit, AcquireError>>)
        ensures
            !f.completes() ==> *final(self) == *old(self),
            f.completes() && old(self).closed ==> *final(self) == *old(self) && f.value().is_err(),
            f.completes() && !old(self).closed ==> old(self).permits > 0 && final(self).permits == old(self).permits - 1
                && final(self).closed == old(self).closed && (f.value() matches Ok(p) && p.n == 1),
            // tokio: acquiring from a closed semaphore is ready (with an error) at the first poll
            old(self).closed && f.polled() ==> f.completes(),
    { unimplemented!() }

    #[verifier::external_body]
    pub fn add_permits(&mut self, n: usize)
        ensures final(self).permits == old(self).permits + n, final(self).closed == old(self).closed
    { unimplemented!() }

    #[verifier::external_body]
    pub fn close(&mut self)
        ensures final(self).closed, final(self).permits == old(self).permits
    { unimplemented!() }

    #[verifier::external_body]
    pub fn is_closed(&self) -> (r: bool)
        ensures r == self.closed
    { unimplemented!() }

    // the number of free permits (compared with tokio's own count by `replay model_semaphore`)
    #[verifier::external_body]
    pub fn available_permits(&self) -> (r: usize)
        ensures r as int == self.permits
    { unimplemented!() }

    // Drop of a live SemaphorePermit (R5)
    #[verifier::external_body]
    pub fn release_(&mut self, p: SemaphorePermit)
        ensures final(self).permits == old(self).permits + p.n, final(self).closed == old(self).closed
    { unimplemented!() }
}

impl SemaphorePermit {
    #[verifier::external_body]
    pub fn forget(self)
    { unimplemented!() }
}

// ---- std::sync::atomic ------------------------------------------------------------------------------------
// fetch_sub: real semantics wrap; the no-wrap condition is a proof OBLIGATION (requires).
// fetch_add: the no-overflow condition is ASSUMED (A8: counters do not reach 2^64).
pub struct AtomicUsize { pub v: usize }
pub struct AtomicIsize { pub v: isize }

impl AtomicUsize {
    pub fn new(v: usize) -> (a: AtomicUsize) ensures a.v == v { AtomicUsize { v } }
    #[verifier::external_body]
    pub fn fetch_add(&mut self, n: usize, o: Ordering) -> (r: usize)
        ensures r == old(self).v, final(self).v == old(self).v + n
    { unimplemented!() }
    pub fn fetch_sub(&mut self, n: usize, o: Ordering) -> (r: usize)
        requires old(self).v >= n
        ensures r == old(self).v, final(self).v == old(self).v - n
    { let r = self.v; self.v = self.v - n; r }
    pub fn load(&self, o: Ordering) -> (r: usize) ensures r == self.v { self.v }
    pub fn store(&mut self, v: usize, o: Ordering) ensures final(self).v == v { self.v = v; }
    pub fn swap(&mut self, v: usize, o: Ordering) -> (r: usize) ensures r == old(self).v, final(self).v == v { let r = self.v; self.v = v; r }
}

impl AtomicIsize {
    pub fn new(v: isize) -> (a: AtomicIsize) ensures a.v == v { AtomicIsize { v } }
    #[verifier::external_body]
    pub fn fetch_add(&mut self, n: isize, o: Ordering) -> (r: isize)
        ensures r == old(self).v, final(self).v == old(self).v + n
    { unimplemented!() }
    // a signed counter: staying within isize in either direction is assumed like fetch_add's no-overflow (A8)
    #[verifier::external_body]
    pub fn fetch_sub(&mut self, n: isize, o: Ordering) -> (r: isize)
        ensures r == old(self).v, final(self).v == old(self).v - n
    { unimplemented!() }
    pub fn load(&self, o: Ordering) -> (r: isize) ensures r == self.v { self.v }
    pub fn store(&mut self, v: isize, o: Ordering) ensures final(self).v == v { self.v = v; }
}

// ---- std::sync::Mutex (R1: `.lock().unwrap()` = `lock_()` + direct access to `data`; poisoning dropped, A6) ----
pub struct Mutex<T> { pub data: T, pub held: Ghost<bool> }

impl<T> Mutex<T> {
    pub fn new(data: T) -> (m: Mutex<T>) ensures m.data == data, !m.held@ { Mutex { data, held: Ghost(false) } }
    // self-deadlock freedom is the obligation `!held`
    pub fn lock_(&mut self)
        requires !old(self).held@
        ensures final(self).held@, final(self).data == old(self).data
    { proof { self.held@ = true; } }
    pub fn unlock_(&mut self)
        requires old(self).held@
        ensures !final(self).held@, final(self).data == old(self).data
    { proof { self.held@ = false; } }
}

// ---- futures of external operations (R4) -------------------------------------------------------------------
#[verifier::external_body]
#[verifier::reject_recursive_types(R)]
pub struct ExtFut<R> { r: core::marker::PhantomData<R> }

impl<R> ExtFut<R> {
    // prophecies: will this future be polled at all, and is it polled to completion (in time to be observed)?
    pub uninterp spec fn polled(&self) -> bool;
    pub uninterp spec fn completes(&self) -> bool;
    pub uninterp spec fn value(&self) -> R;

    // `.await` on an external future: returns its value, or never returns (cancelled / panicked ⇒ unwinding)
    #[verifier::external_body]
    pub fn await_(self) -> (r: Ctl<R>)
        ensures
            self.polled(),
            r matches Ctl::Done(v) ==> self.completes() && v == self.value(),
            r is Unwind ==> !self.completes(),
    { unimplemented!() }

    // async { fut.await.<f> }
    #[verifier::external_body]
    pub fn then_<U, F: FnOnce(R) -> U>(self, f: F) -> (r: ExtFut<U>)
        requires forall|v: R| f.requires((v,))
        ensures r.completes() == self.completes(), r.polled() == self.polled(), self.completes() ==> f.ensures((self.value(),), r.value())
    { unimplemented!() }

    // dropped without having been polled to completion: resolves the prophecy (it did not complete)
    #[verifier::external_body]
    pub fn drop_unpolled_(self)
        ensures !self.polled(), !self.completes()
    { unimplemented!() }
}

impl<T, E1> ExtFut<Result<T, E1>> {
    // async { fut.await.map_err(|_| e) }
    #[verifier::external_body]
    pub fn map_err_<E2>(self, e: E2) -> (r: ExtFut<Result<T, E2>>)
        ensures r.completes() == self.completes(), r.polled() == self.polled(),
            self.value() matches Ok(v) ==> r.value() == Ok::<T, E2>(v),
            self.value() is Err ==> r.value() == Err::<T, E2>(e),
    { unimplemented!() }
}

// ---- time / runtime ---------------------------------------------------------------------------------------
#[derive(Clone, Copy)]
pub struct Duration { pub secs: u64, pub nanos: u32 }
impl Duration {
    // the whole duration in nanoseconds
    pub open spec fn total(self) -> int { self.secs as int * 1_000_000_000 + self.nanos as int }
    #[verifier::external_body]
    pub fn as_nanos(&self) -> (r: u128) ensures r == self.total() { unimplemented!() }
    pub fn as_secs(&self) -> (r: u64) ensures r == self.secs { self.secs }
    pub fn subsec_nanos(&self) -> (r: u32) ensures r == self.nanos { self.nanos }
    #[verifier::external_body]
    pub fn as_millis(&self) -> (r: u128) ensures r == self.total() / 1_000_000 { unimplemented!() }
    #[verifier::external_body]
    pub fn subsec_millis(&self) -> (r: u32) ensures r == self.nanos / 1_000_000 { unimplemented!() }
    #[verifier::external_body]
    pub fn is_zero(&self) -> (r: bool) ensures r == (self.total() == 0) { unimplemented!() }
    #[verifier::external_body]
    pub fn from_millis(ms: u64) -> (r: Duration) ensures r.secs == ms / 1000, r.nanos == (ms % 1000) * 1_000_000, r.total() == ms as int * 1_000_000 { unimplemented!() }
    #[verifier::external_body]
    pub fn from_secs(s: u64) -> (r: Duration) ensures r.secs == s, r.nanos == 0 { unimplemented!() }
}

// comparisons of Durations compare the total time
impl vstd::std_specs::cmp::PartialEqSpecImpl for Duration {
    open spec fn obeys_eq_spec() -> bool { true }
    open spec fn eq_spec(&self, other: &Duration) -> bool { self.total() == other.total() }
}
impl PartialEq for Duration {
    #[verifier::external_body]
    fn eq(&self, other: &Duration) -> (r: bool) { unimplemented!() }
}
impl vstd::std_specs::cmp::PartialOrdSpecImpl for Duration {
    open spec fn obeys_partial_cmp_spec() -> bool { true }
    open spec fn partial_cmp_spec(&self, other: &Duration) -> Option<core::cmp::Ordering> {
        if self.total() < other.total() { Some(core::cmp::Ordering::Less) } else if self.total() == other.total() { Some(core::cmp::Ordering::Equal) } else { Some(core::cmp::Ordering::Greater) }
    }
}
impl PartialOrd for Duration {
    #[verifier::external_body]
    fn partial_cmp(&self, other: &Duration) -> (r: Option<core::cmp::Ordering>) { unimplemented!() }
}

#[derive(Clone, Copy)]
pub enum Runtime { Tokio1, AsyncStd1 }

impl Runtime {
    // trusted contract of deadpool_runtime::Runtime::timeout (tokio::time::timeout):
    //   Some(v) ⇒ the future completed with v;  None ⇒ the deadline passed first and the future was dropped
    //   (so, by the eager model, it had no effect);  unwinding only while the future is pending.
    #[verifier::external_body]
    pub fn timeout<R>(&self, duration: Duration, future: ExtFut<R>) -> (r: Ctl<Option<R>>)
        ensures
            future.polled(),
            r matches Ctl::Done(Some(v)) ==> future.completes() && v == future.value(),
            r matches Ctl::Done(None) ==> !future.completes(),
            r is Unwind ==> !future.completes(),
    { unimplemented!() }
}

// integer helpers without a vstd specification (A5)
pub assume_specification[usize::abs_diff](a: usize, b: usize) -> (r: usize)
    ensures r as int == (if a >= b { a - b } else { b - a });
pub assume_specification[isize::unsigned_abs](a: isize) -> (r: usize)
    ensures r as int == (if a >= 0 { a as int } else { -(a as int) });

// Option<Result<T, E>>::transpose (no vstd specification; A5)
pub assume_specification<T, E>[Option::<Result<T, E>>::transpose](o: Option<Result<T, E>>) -> (r: Result<Option<T>, E>)
    ensures r == (match o { Some(Ok(v)) => Ok::<Option<T>, E>(Some(v)), Some(Err(e)) => Err::<Option<T>, E>(e), None => Ok::<Option<T>, E>(None) });

// std::thread::panicking(): whether the current thread is unwinding; arbitrary here (both answers are explored)
#[verifier::external_body]
pub fn vx_thread_panicking() -> (r: bool) { unimplemented!() }

// vacuity guard: reachability probes `if vx_nondet() { assert(false); }` must all FAIL
#[verifier::external_body]
pub fn vx_nondet() -> (r: bool) { unimplemented!() }

// ---- Into::into (A5: `impl<T, U: From<T>> Into<U> for T` and `impl<T> From<T> for T` of std) -----------------
pub mod vx_conv {
    use vstd::prelude::*;
    pub uninterp spec fn into_spec<A, B>(a: A) -> B;
    // reflexive conversion (`impl<T> From<T> for T`). Broadcast: a `?` on a value that already has the function's error type
    // converts by this impl; no proof step should be needed for the identity.
    pub broadcast axiom fn axiom_into_refl<A>(a: A)
        ensures #[trigger] into_spec::<A, A>(a) == a;
}
pub use vx_conv::*;
broadcast use vx_conv::axiom_into_refl;
#[verifier::external_body]
pub fn vx_into<A: Into<B>, B>(a: A) -> (b: B)
    ensures b == into_spec::<A, B>(a)
{ unimplemented!() }
// blanket `impl<T, U: From<T>> Into<U> for T`: into = U::from, whose behaviour is `from_spec` where the impl obeys it
pub axiom fn axiom_into_from<A, B: From<A>>(a: A)
    ensures B::obeys_from_spec() ==> #[trigger] into_spec::<A, B>(a) == B::from_spec(a);

// ---- DropGuard(closure) (R7): the guard value itself carries nothing; its Drop (= the closure body) is inlined by
// the extractor at every exit where the guard is still live, `disarm` (= mem::forget) ends its life without effect.
pub struct DropGuard { }
impl DropGuard {
    pub fn new_() -> DropGuard { DropGuard { } }
    pub fn disarm(self) { }
}

// num_cpus::get_physical(): some small positive number (trusted)
pub mod num_cpus {
    use super::*;
    #[verifier::external_body]
    pub fn get_physical() -> (r: usize)
        ensures 1 <= r <= 65536
    { unimplemented!() }
}

// usize::saturating_sub (std, A5)
pub fn vx_saturating_sub(a: usize, b: usize) -> (r: usize)
    ensures r == (if a >= b { a - b } else { 0 })
{ if a >= b { a - b } else { 0 } }

// quick vacuity twin: stands for the (irrelevant) function body after the entry reachability probe
#[verifier::external_body]
pub fn vx_arbitrary<T>() -> (r: T) { unimplemented!() }

// `unreachable!()` / `panic!()` in a function that has no way to report a panic: must be provably unreachable
#[verifier::external_body]
pub fn vx_unreachable() -> (r: !)
    requires false
{ unimplemented!() }
