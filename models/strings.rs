// Strings (R2): `String` and `str` are both modelled by the opaque type `Str` whose view is the character sequence.
#[verifier::external_body]
pub struct Str { _p: () }
pub uninterp spec fn str_view(s: &Str) -> Seq<char>;
impl View for Str {
    type V = Seq<char>;
    closed spec fn view(&self) -> Seq<char> { str_view(self) }
}
impl Str {
    #[verifier::external_body]
    pub fn as_str(&self) -> (r: &Str) ensures r@ == self@ { unimplemented!() }
    #[verifier::external_body]
    pub fn is_empty(&self) -> (r: bool) ensures r == (self@.len() == 0) { unimplemented!() }
    // `match x { "lit" => .. }`
    #[verifier::external_body]
    pub fn is_lit_(&self, l: &Str) -> (r: bool) ensures r == (self@ == l@), l@.len() == 0 ==> r == (self@.len() == 0) { unimplemented!() }
    #[verifier::external_body]
    pub fn clone(&self) -> (r: Str) ensures r@ == self@ { unimplemented!() }
    // str::trim(): some sub-slice, never longer than the string (which characters count as whitespace is not modelled)
    #[verifier::external_body]
    pub fn trim(&self) -> (r: &Str) ensures r@ == str_trim(self@), str_trim(self@).len() <= self@.len() { unimplemented!() }
}
pub uninterp spec fn str_trim(s: Seq<char>) -> Seq<char>;
// a string literal
#[verifier::external_body]
pub fn vx_lit(s: &'static str) -> (r: &'static Str) ensures r@ == s@ { unimplemented!() }
// `==` on strings compares the character sequences
impl PartialEqSpecImpl for Str {
    open spec fn obeys_eq_spec() -> bool { true }
    open spec fn eq_spec(&self, other: &Str) -> bool { self@ == other@ }
}
impl PartialEq for Str {
    #[verifier::external_body]
    fn eq(&self, other: &Str) -> (r: bool) { unimplemented!() }
}
// usize::to_string(): the decimal representation (injective, trusted)
pub uninterp spec fn decimal(n: nat) -> Seq<char>;
#[verifier::external_body]
pub fn vx_to_string(n: usize) -> (r: Str) ensures r@ == decimal(n as nat) { unimplemented!() }
pub axiom fn axiom_decimal_injective(a: nat, b: nat) ensures decimal(a) == decimal(b) ==> a == b;
#[verifier::external_body]
pub fn vx_str_to_string(s: &Str) -> (r: Str) ensures r@ == s@ { unimplemented!() }
