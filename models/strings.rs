// Strings (R2): `String` and `str` are both modelled by the opaque type `Str` whose view is the character sequence.
#[verifier::external_body]
pub struct Str { _p: () }
pub uninterp spec fn str_view(s: &Str) -> Seq<char>;
impl View for Str {
    type V = Seq<char>;
    closed spec fn view(&self) -> Seq<char> { str_view(self) }
}
impl Str {
    #[verifier::external_body]
    pub fn as_str(&self) -> (r: &Str) ensures r@ == self@ { unimplemented!() }
    #[verifier::external_body]
    pub fn is_empty(&self) -> (r: bool) ensures r == (self@.len() == 0) { unimplemented!() }
    // `match x { "lit" => .. }`
    #[verifier::external_body]
    pub fn is_lit_(&self, l: &Str) -> (r: bool) ensures r == (self@ == l@), l@.len() == 0 ==> r == (self@.len() == 0) { unimplemented!() }
    #[verifier::external_body]
    pub fn clone(&self) -> (r: Str) ensures r@ == self@ { unimplemented!() }
}
// a string literal
#[verifier::external_body]
pub fn vx_lit(s: &'static str) -> (r: &'static Str) ensures r@ == s@ { unimplemented!() }
