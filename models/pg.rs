// Trusted model of tokio_postgres::Config: abstract state + setter / getter contracts (A7).
pub enum HostV { Tcp(Seq<char>), Unix(Seq<char>) }
#[derive(Clone, Copy)]
pub struct IpAddr { pub a: u128 }

pub struct PgState {
    pub user: Option<Seq<char>>, pub password: Option<Seq<char>>, pub dbname: Option<Seq<char>>,
    pub options: Option<Seq<char>>, pub application_name: Option<Seq<char>>,
    pub hosts: Seq<HostV>, pub hostaddrs: Seq<IpAddr>, pub ports: Seq<u16>,
    pub connect_timeout: Option<Duration>, pub keepalives: bool, pub keepalives_idle: Duration,
    pub ssl_mode: PgSslMode, pub target_session_attrs: PgTargetSessionAttrs, pub channel_binding: PgChannelBinding,
    pub load_balance_hosts: PgLoadBalanceHosts,
}
// frame of a setter: every field except number `f` is unchanged (field-wise, so that the solver never builds struct terms)
pub spec const F_USER: int = 0;
pub spec const F_PASSWORD: int = 1;
pub spec const F_DBNAME: int = 2;
pub spec const F_OPTIONS: int = 3;
pub spec const F_APPLICATION_NAME: int = 4;
pub spec const F_HOSTS: int = 5;
pub spec const F_HOSTADDRS: int = 6;
pub spec const F_PORTS: int = 7;
pub spec const F_CONNECT_TIMEOUT: int = 8;
pub spec const F_KEEPALIVES: int = 9;
pub spec const F_KEEPALIVES_IDLE: int = 10;
pub spec const F_SSL_MODE: int = 11;
pub spec const F_TARGET_SESSION_ATTRS: int = 12;
pub spec const F_CHANNEL_BINDING: int = 13;
pub spec const F_LOAD_BALANCE_HOSTS: int = 14;
pub open spec fn eq_except(a: PgState, b: PgState, f: int) -> bool {
    &&& (f == 0 || a.user == b.user)
    &&& (f == 1 || a.password == b.password)
    &&& (f == 2 || a.dbname == b.dbname)
    &&& (f == 3 || a.options == b.options)
    &&& (f == 4 || a.application_name == b.application_name)
    &&& (f == 5 || a.hosts == b.hosts)
    &&& (f == 6 || a.hostaddrs == b.hostaddrs)
    &&& (f == 7 || a.ports == b.ports)
    &&& (f == 8 || a.connect_timeout == b.connect_timeout)
    &&& (f == 9 || a.keepalives == b.keepalives)
    &&& (f == 10 || a.keepalives_idle == b.keepalives_idle)
    &&& (f == 11 || a.ssl_mode == b.ssl_mode)
    &&& (f == 12 || a.target_session_attrs == b.target_session_attrs)
    &&& (f == 13 || a.channel_binding == b.channel_binding)
    &&& (f == 14 || a.load_balance_hosts == b.load_balance_hosts)
}
#[verifier::external_body]
pub struct PgConfig { _p: () }
#[verifier::external_body]
pub struct PgError { _p: () }
pub uninterp spec fn pg_view(c: &PgConfig) -> PgState;
impl View for PgConfig {
    type V = PgState;
    closed spec fn view(&self) -> PgState { pg_view(self) }
}
// what `Config::from_str` makes of a URL (None = parse error) and the defaults of `Config::new()`
pub uninterp spec fn pg_parse(url: Seq<char>) -> Option<PgState>;
pub uninterp spec fn pg_default() -> PgState;
pub open spec fn tcp(s: Seq<char>) -> HostV { HostV::Tcp(s) }

#[verifier::external_body]
pub struct HostList { _p: () }
impl HostList {
    pub uninterp spec fn len_spec(&self) -> nat;
    #[verifier::external_body]
    pub fn is_empty(&self) -> (r: bool) ensures r == (self.len_spec() == 0) { unimplemented!() }
}

impl PgConfig {
    #[verifier::external_body]
    pub fn new() -> (c: PgConfig)
        ensures c@ == pg_default(), pg_default().hosts.len() == 0, pg_default().hostaddrs.len() == 0, pg_default().ports.len() == 0,
            pg_default().user.is_none(), pg_default().dbname.is_none()
    { unimplemented!() }
    #[verifier::external_body]
    pub fn from_str(url: &Str) -> (r: Result<PgConfig, PgError>)
        ensures r matches Ok(c) ==> pg_parse(url@) == Some(c@), r is Err ==> pg_parse(url@).is_none()
    { unimplemented!() }
    #[verifier::external_body] pub fn user(&mut self, v: &Str) ensures final(self)@.user == Some(v@), eq_except(final(self)@, old(self)@, 0) { unimplemented!() }
    #[verifier::external_body] pub fn password(&mut self, v: &Str) ensures final(self)@.password == Some(v@), eq_except(final(self)@, old(self)@, 1) { unimplemented!() }
    #[verifier::external_body] pub fn dbname(&mut self, v: &Str) ensures final(self)@.dbname == Some(v@), eq_except(final(self)@, old(self)@, 2) { unimplemented!() }
    #[verifier::external_body] pub fn options(&mut self, v: &Str) ensures final(self)@.options == Some(v@), eq_except(final(self)@, old(self)@, 3) { unimplemented!() }
    #[verifier::external_body] pub fn application_name(&mut self, v: &Str) ensures final(self)@.application_name == Some(v@), eq_except(final(self)@, old(self)@, 4) { unimplemented!() }
    #[verifier::external_body] pub fn host(&mut self, v: &Str) ensures final(self)@.hosts == old(self)@.hosts.push(tcp(v@)), eq_except(final(self)@, old(self)@, 5) { unimplemented!() }
    #[verifier::external_body] pub fn host_path(&mut self, v: &Str) ensures final(self)@.hosts == old(self)@.hosts.push(HostV::Unix(v@)), eq_except(final(self)@, old(self)@, 5) { unimplemented!() }
    #[verifier::external_body] pub fn hostaddr(&mut self, v: IpAddr) ensures final(self)@.hostaddrs == old(self)@.hostaddrs.push(v), eq_except(final(self)@, old(self)@, 6) { unimplemented!() }
    #[verifier::external_body] pub fn port(&mut self, v: u16) ensures final(self)@.ports == old(self)@.ports.push(v), eq_except(final(self)@, old(self)@, 7) { unimplemented!() }
    #[verifier::external_body] pub fn connect_timeout(&mut self, v: Duration) ensures final(self)@.connect_timeout == Some(v), eq_except(final(self)@, old(self)@, 8) { unimplemented!() }
    #[verifier::external_body] pub fn keepalives(&mut self, v: bool) ensures final(self)@.keepalives == v, eq_except(final(self)@, old(self)@, 9) { unimplemented!() }
    #[verifier::external_body] pub fn keepalives_idle(&mut self, v: Duration) ensures final(self)@.keepalives_idle == v, eq_except(final(self)@, old(self)@, 10) { unimplemented!() }
    #[verifier::external_body] pub fn ssl_mode(&mut self, v: PgSslMode) ensures final(self)@.ssl_mode == v, eq_except(final(self)@, old(self)@, 11) { unimplemented!() }
    #[verifier::external_body] pub fn target_session_attrs(&mut self, v: PgTargetSessionAttrs) ensures final(self)@.target_session_attrs == v, eq_except(final(self)@, old(self)@, 12) { unimplemented!() }
    #[verifier::external_body] pub fn channel_binding(&mut self, v: PgChannelBinding) ensures final(self)@.channel_binding == v, eq_except(final(self)@, old(self)@, 13) { unimplemented!() }
    #[verifier::external_body] pub fn load_balance_hosts(&mut self, v: PgLoadBalanceHosts) ensures final(self)@.load_balance_hosts == v, eq_except(final(self)@, old(self)@, 14) { unimplemented!() }
    #[verifier::external_body]
    pub fn get_user(&self) -> (r: Option<&Str>)
        ensures r.is_some() == self@.user.is_some(), r matches Some(s) ==> s@ == self@.user->Some_0
    { unimplemented!() }
    #[verifier::external_body]
    pub fn get_dbname(&self) -> (r: Option<&Str>)
        ensures r.is_some() == self@.dbname.is_some(), r matches Some(s) ==> s@ == self@.dbname->Some_0
    { unimplemented!() }
    #[verifier::external_body]
    pub fn get_hosts(&self) -> (r: &HostList)
        ensures r.len_spec() == self@.hosts.len()
    { unimplemented!() }
}

// std::env::var
pub struct VarError { }
pub mod env {
    use super::*;
    #[verifier::external_body]
    pub fn var(name: &Str) -> (r: Result<Str, VarError>) { unimplemented!() }
}
