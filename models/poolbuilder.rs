// deadpool::managed::{Pool::builder, PoolBuilder::{config, runtime, build}} for the configuration units. These are the
// contracts PROVED on the real functions in unit mg (labels `builder.holds_the_manager_untouched`,
// `builder_config.sets_only_config`, `builder_runtime.sets_only_runtime`, `build.timeouts_need_a_runtime`,
// `build.otherwise_builds`, `build.passes_everything_through`); here they are assumed (cross-unit assumption).
pub struct PoolBuilder { pub manager: Manager, pub config: PoolConfig, pub runtime: Option<Runtime> }
pub struct Pool { pub manager: Manager, pub config: PoolConfig, pub runtime: Option<Runtime> }
pub open spec fn has_timeouts(c: PoolConfig) -> bool { c.timeouts.wait.is_some() || c.timeouts.create.is_some() || c.timeouts.recycle.is_some() }
impl Pool {
    #[verifier::external_body]
    pub fn builder(manager: Manager) -> (r: PoolBuilder) ensures r.manager == manager, r.runtime.is_none() { unimplemented!() }
}
impl PoolBuilder {
    #[verifier::external_body]
    pub fn config(self, value: PoolConfig) -> (r: PoolBuilder) ensures r.manager == self.manager, r.config == value, r.runtime == self.runtime { unimplemented!() }
    #[verifier::external_body]
    pub fn runtime(self, value: Runtime) -> (r: PoolBuilder) ensures r.manager == self.manager, r.config == self.config, r.runtime == Some(value) { unimplemented!() }
    #[verifier::external_body]
    pub fn build(self) -> (r: Result<Pool, BuildError>)
        ensures
            has_timeouts(self.config) && self.runtime.is_none() ==> r matches Err(BuildError::NoRuntimeSpecified),
            !(has_timeouts(self.config) && self.runtime.is_none()) ==> r.is_ok(),
            r matches Ok(p) ==> p.manager == self.manager && p.config == self.config && p.runtime == self.runtime,
    { unimplemented!() }
}
// `pub type CreatePoolError = deadpool::managed::CreatePoolError<ConfigError>` of the manager crates
pub type CreatePoolError = CreatePoolErrorG<ConfigError>;
