// deadpool::managed::Pool::from_builder for the configuration units: the pool holds what the builder holds (proved on the
// real function in unit mg: `from_builder.passes_everything_through`). PoolBuilder::{new, config, runtime, build} and
// Pool::builder themselves are EXTRACTED in these units (src/managed/builder.rs, src/managed/mod.rs).
pub struct Pool { pub manager: Manager, pub config: PoolConfig, pub runtime: Option<Runtime> }
pub open spec fn has_timeouts(c: PoolConfig) -> bool { c.timeouts.wait.is_some() || c.timeouts.create.is_some() || c.timeouts.recycle.is_some() }
impl Pool {
    #[verifier::external_body]
    pub fn from_builder(b: PoolBuilder) -> (p: Pool) ensures p.manager == b.manager, p.config == b.config, p.runtime == b.runtime { unimplemented!() }
}
// `pub type CreatePoolError = deadpool::managed::CreatePoolError<ConfigError>` of the manager crates
pub type CreatePoolError = CreatePoolErrorG<ConfigError>;
