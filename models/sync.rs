// Trusted model of deadpool_sync::SyncWrapper as seen by the managers built on it (C15).
// Thread placement, the real mutex and unwinding are not modelled (C14 is not applicable); what is modelled:
// `is_mutex_poisoned()` reports the ghost flag, an interaction either does not start (error / cancelled) or
// hands the wrapped value to the closure, which the extractor runs inline (`inlinecall interact`).
pub enum InteractError { Panic(PanicPayload), Aborted }
impl InteractError {
    // `e.to_string()` (Display): an opaque text, like `format!("{}", e)`
    #[verifier::external_body]
    pub fn to_string(&self) -> (r: Str) { unimplemented!() }
}
#[verifier::external_body]
pub struct PanicPayload { _p: () }

pub struct SyncGuardTok { }
pub struct PoisonTok { }
pub enum TryLockError { Poisoned(PoisonTok), WouldBlock }
pub struct SyncWrapper<T> { pub obj: T, pub poisoned: Ghost<bool>, pub interactions: Ghost<int> }
impl<T> SyncWrapper<T> {
    #[verifier::external_body]
    pub fn is_mutex_poisoned(&self) -> (r: bool) ensures r == self.poisoned@ { unimplemented!() }
    // start of `interact(f).await`: a poisoned mutex makes the interaction fail (the closure's lock().unwrap() panics)
    #[verifier::external_body]
    pub fn interact_begin_(&mut self) -> (r: Ctl<Result<(), InteractError>>)
        ensures final(self).obj == old(self).obj, final(self).poisoned == old(self).poisoned,
            r matches Ctl::Done(Ok(_)) ==> !old(self).poisoned@ && final(self).interactions@ == old(self).interactions@ + 1,
            !(r matches Ctl::Done(Ok(_))) ==> final(self).interactions@ == old(self).interactions@,
    { unimplemented!() }
    // SyncWrapper::try_lock (std::sync::Mutex::try_lock underneath): Ok only on a free, unpoisoned mutex; `Poisoned` only on
    // a poisoned one; `WouldBlock` whenever somebody (e.g. a cancelled interaction that is still running) holds it
    #[verifier::external_body]
    pub fn try_lock(&self) -> (r: Result<SyncGuardTok, TryLockError>)
        ensures r is Ok ==> !self.poisoned@, (r matches Err(TryLockError::Poisoned(_))) ==> self.poisoned@
    { unimplemented!() }
    pub fn interact_target_(&mut self) -> (r: &mut T)
        ensures *r == old(self).obj, final(self).obj == *final(r), final(self).poisoned == old(self).poisoned, final(self).interactions == old(self).interactions
    { &mut self.obj }
}

// RecycleError::message(impl Into<Cow<'static, str>>): the text is opaque
#[verifier::external_body]
pub struct CowStr { _p: () }
impl CowStr {
    pub uninterp spec fn as_ref_spec(&self) -> Seq<char>;
    #[verifier::external_body]
    pub fn as_ref(&self) -> (r: &Str) ensures r@ == self.as_ref_spec() { unimplemented!() }
}
#[verifier::external_body]
pub fn vx_format() -> (r: Str) { unimplemented!() }
impl From<&Str> for CowStr {
    #[verifier::external_body]
    fn from(s: &Str) -> (r: CowStr) { unimplemented!() }
}
