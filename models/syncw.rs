// Trusted model for the SyncWrapper unit (C14): std's poisoning Mutex, deadpool_runtime's spawn_blocking, user closures.

// Box<dyn Any + Send + 'static>: the payload of a panic
#[verifier::external_body]
pub struct PanicPayload { _p: () }
// the payload std::panic::catch_unwind hands back for a caught panic
#[verifier::external_body]
pub fn vx_panic_payload_() -> (r: PanicPayload) { unimplemented!() }

// std::sync::Mutex<T> with poisoning: a guard dropped while a panic unwinds poisons the mutex; `lock().unwrap()` panics on a
// poisoned mutex; `lock()` hands the guard out either way (inside `PoisonError` when poisoned).
pub struct PMutex<T> { pub data: T, pub held: Ghost<bool>, pub poisoned: Ghost<bool> }
impl<T> PMutex<T> {
    pub fn new(t: T) -> (r: Self) ensures r.data == t, !r.held@, !r.poisoned@ { PMutex { data: t, held: Ghost(false), poisoned: Ghost(false) } }
    #[verifier::external_body]
    pub fn is_poisoned(&self) -> (r: bool) ensures r == self.poisoned@ { unimplemented!() }
    #[verifier::external_body]
    pub fn lock_(&mut self)
        requires !old(self).held@
        ensures final(self).held@, final(self).data == old(self).data, final(self).poisoned == old(self).poisoned
    { unimplemented!() }
    #[verifier::external_body]
    pub fn unlock_(&mut self)
        requires old(self).held@
        ensures !final(self).held@, final(self).data == old(self).data, final(self).poisoned == old(self).poisoned
    { unimplemented!() }
    // the guard is dropped while a panic unwinds
    #[verifier::external_body]
    pub fn unlock_unwinding_(&mut self)
        requires old(self).held@
        ensures !final(self).held@, final(self).data == old(self).data, final(self).poisoned@
    { unimplemented!() }
}

// What runs on a blocking thread: either the (eagerly evaluated, DESIGN §0.7) outcome of a lifted closure of /repo, or an opaque
// user closure. `Unwind` = the closure panicked.
pub trait Job: Sized {
    type Out;
    spec fn outcome(self) -> Ctl<Self::Out>;
}
impl<R> Job for Ctl<R> {
    type Out = R;
    open spec fn outcome(self) -> Ctl<R> { self }
}
// `F: FnOnce() -> Result<T, E>` given to SyncWrapper::new: user code, arbitrary outcome
#[verifier::external_body]
#[verifier::reject_recursive_types(T)]
#[verifier::reject_recursive_types(E)]
pub struct CreateFn<T, E> { _p: core::marker::PhantomData<(T, E)> }
impl<T, E> Job for CreateFn<T, E> {
    type Out = Result<T, E>;
    uninterp spec fn outcome(self) -> Ctl<Result<T, E>>;
}
// `F: FnOnce(&mut T) -> R` given to interact(): user code that works on the wrapped value and may panic
#[verifier::external_body]
#[verifier::reject_recursive_types(T)]
#[verifier::reject_recursive_types(R)]
pub struct UserFn<T, R> { _p: core::marker::PhantomData<(T, R)> }
impl<T, R> UserFn<T, R> {
    #[verifier::external_body]
    pub fn call_(self, conn: &mut T, blocking: bool) -> (r: Ctl<R>)
        requires
            blocking, // [C14 user_closure_runs_only_where_blocking_is_allowed]
    { unimplemented!() }
}
// the destructor of the wrapped value (user code that may block)
#[verifier::external_body]
pub fn vx_drop_value<T>(v: Option<T>, blocking: bool)
    requires
        v.is_some() ==> blocking, // [C14 value_is_destroyed_only_where_blocking_is_allowed]
{ unimplemented!() }

impl Runtime {
    // deadpool_runtime::Runtime::spawn_blocking(f): f runs on a thread where blocking is allowed, to completion, whether or
    // not the returned future is awaited to the end; a panic of f is reported as SpawnBlockingError::Panic
    // (`Unwind` here = the caller was cancelled while awaiting; the job has run all the same)
    #[verifier::external_body]
    pub fn spawn_blocking<J: Job>(&self, job: J) -> (r: Ctl<Result<J::Out, SpawnBlockingError>>)
        ensures
            r matches Ctl::Done(v) ==> (match job.outcome() { Ctl::Done(o) => v == Ok::<J::Out, SpawnBlockingError>(o), Ctl::Unwind => v is Err }),
    { unimplemented!() }
    // spawn_blocking_background(f): the same without a handle; never fails
    #[verifier::external_body]
    pub fn spawn_blocking_background(&self, job: ()) -> (r: Result<(), SpawnBlockingError>)
        ensures r.is_ok()
    { unimplemented!() }
}
// a panic in code that has no way to report it (`lock().unwrap()` on a poisoned mutex outside a job)
#[verifier::external_body]
pub fn vx_panic_()
    requires
        false, // [C14 no_panic_outside_a_blocking_job]
{ unimplemented!() }
impl<T> PMutex<T> {
    // `try_lock()` is `Ok(guard)`: the mutex was free and not poisoned; otherwise nothing happens
    #[verifier::external_body]
    pub fn try_lock_(&mut self) -> (r: bool)
        requires !old(self).held@
        ensures final(self).data == old(self).data, final(self).poisoned == old(self).poisoned, final(self).held@ == r, r ==> !old(self).poisoned@
    { unimplemented!() }
    // `lock()` is `Ok(guard)`: acquired and not poisoned; if poisoned the guard inside the error is dropped at once
    #[verifier::external_body]
    pub fn lock_unpoisoned_(&mut self) -> (r: bool)
        requires !old(self).held@
        ensures final(self).data == old(self).data, final(self).poisoned == old(self).poisoned, final(self).held@ == r, r == !old(self).poisoned@
    { unimplemented!() }
}
// `Option::take` on the wrapped value: the value leaves the wrapper (whoever holds it now will run its destructor)
pub fn vx_take_value<T>(o: &mut Option<T>, blocking: bool) -> (r: Option<T>)
    requires
        old(o).is_some() ==> blocking, // [C14 value_leaves_the_wrapper_only_inside_a_blocking_job]
    ensures r == *old(o), final(o).is_none()
{ o.take() }
impl<T> PMutex<T> {
    // Mutex::clear_poison (std 1.77)
    #[verifier::external_body]
    pub fn clear_poison(&mut self)
        ensures !final(self).poisoned@, final(self).data == old(self).data, final(self).held == old(self).held
    { unimplemented!() }
}
