// Trusted model for the postgres manager / statement cache unit (C16).
#[verifier::external_body]
pub struct Error { _p: () }              // tokio_postgres::Error
#[derive(Clone, Copy)]
pub struct Type { pub oid: u32 }         // tokio_postgres::types::Type (an identifier)
pub struct Statement { pub sid: int }    // tokio_postgres::Statement: identity of a statement prepared on one connection
impl Clone for Statement {
    #[verifier::external_body]
    fn clone(&self) -> (r: Self) ensures r == *self { unimplemented!() }
}
#[verifier::external_body]
#[verifier::reject_recursive_types(T)]
pub struct JoinHandle<T> { _p: core::marker::PhantomData<T> }
#[verifier::external_body]
pub struct Message { _p: () }

// tokio_postgres::Client: what was sent on this connection, in order
pub enum Sent { SimpleQuery(Seq<char>), Prepare(Seq<char>, Seq<Type>) }
// `outcomes`: for every simple query sent, whether the server answered it without error
pub struct PgClient { pub cid: Ghost<int>, pub closed: Ghost<bool>, pub sent: Ghost<Seq<Sent>>, pub prepared: Ghost<Seq<int>>, pub outcomes: Ghost<Seq<bool>> }
impl PgClient {
    #[verifier::external_body]
    pub fn is_closed(&self) -> (r: bool) ensures r == self.closed@ { unimplemented!() }
    // client.simple_query(sql).await
    #[verifier::external_body]
    pub fn simple_query(&mut self, sql: &Str) -> (r: Ctl<Result<Vec<Message>, Error>>)
        ensures final(self).cid == old(self).cid, final(self).sent@ == old(self).sent@.push(Sent::SimpleQuery(sql@)), final(self).prepared == old(self).prepared,
            final(self).outcomes@ == old(self).outcomes@.push(r matches Ctl::Done(Ok(_)))
    { unimplemented!() }
    // client.prepare_typed(query, types).await: a statement prepared on THIS connection (its id is recorded)
    #[verifier::external_body]
    pub fn prepare_typed(&mut self, query: &Str, types: &[Type]) -> (r: Ctl<Result<Statement, Error>>)
        ensures final(self).cid == old(self).cid, final(self).closed == old(self).closed, final(self).outcomes == old(self).outcomes,
            final(self).sent@ == old(self).sent@.push(Sent::Prepare(query@, types@)),
            r matches Ctl::Done(Ok(s)) ==> final(self).prepared@ == old(self).prepared@.push(s.sid),
            !(r matches Ctl::Done(Ok(_))) ==> final(self).prepared == old(self).prepared,
    { unimplemented!() }
}

// ---- the key of the statement cache: Cow<'_, str> / Cow<'_, [Type]> are modelled by their contents ----
pub struct KeyStr { pub v: Ghost<Seq<char>> }
pub struct KeyTypes { pub v: Ghost<Seq<Type>> }
pub trait CowFrom<T>: Sized {
    spec fn spec_from(t: T) -> Self;
    fn from_(t: T) -> (r: Self) ensures r == Self::spec_from(t);
}
impl<'a> CowFrom<&'a Str> for KeyStr {
    open spec fn spec_from(t: &'a Str) -> Self { KeyStr { v: Ghost(t@) } }
    fn from_(t: &'a Str) -> (r: Self) { KeyStr { v: Ghost(t@) } }
}
impl<'a> CowFrom<&'a [Type]> for KeyTypes {
    open spec fn spec_from(t: &'a [Type]) -> Self { KeyTypes { v: Ghost(t@) } }
    fn from_(t: &'a [Type]) -> (r: Self) { KeyTypes { v: Ghost(t@) } }
}
// Cow::Owned(x.to_owned()) and Cow::Borrowed(x): same contents
pub fn vx_cow<T, C: CowFrom<T>>(t: T) -> (c: C) ensures c == C::spec_from(t) { C::from_(t) }

// HashMap<StatementCacheKey, Statement> (A5: std HashMap with a lawful Hash/Eq on the derived key)
pub open spec fn key_view(k: &StatementCacheKey) -> (Seq<char>, Seq<Type>) { (k.query.v@, k.types.v@) }
#[verifier::external_body]
pub struct StmtMap { _p: () }
impl StmtMap {
    pub uninterp spec fn view(&self) -> Map<(Seq<char>, Seq<Type>), Statement>;
    #[verifier::external_body]
    pub fn new() -> (m: StmtMap) ensures m.view() == Map::<(Seq<char>, Seq<Type>), Statement>::empty() { unimplemented!() }
    #[verifier::external_body]
    pub fn clear(&mut self) ensures final(self).view() == Map::<(Seq<char>, Seq<Type>), Statement>::empty() { unimplemented!() }
    #[verifier::external_body]
    pub fn remove(&mut self, k: &StatementCacheKey) -> (r: Option<Statement>)
        ensures final(self).view() == old(self).view().remove(key_view(k)),
            r == (if old(self).view().contains_key(key_view(k)) { Some(old(self).view()[key_view(k)]) } else { None })
    { unimplemented!() }
    #[verifier::external_body]
    pub fn get(&self, k: &StatementCacheKey) -> (r: Option<&Statement>)
        ensures r.is_some() == self.view().contains_key(key_view(k)), r matches Some(s) ==> *s == self.view()[key_view(k)]
    { unimplemented!() }
    #[verifier::external_body]
    pub fn insert(&mut self, k: StatementCacheKey, v: Statement) -> (r: Option<Statement>)
        ensures final(self).view() == old(self).view().insert(key_view(&k), v), r.is_some() == old(self).view().contains_key(key_view(&k))
    { unimplemented!() }
}
// Option<&Statement>.map(ToOwned::to_owned)
#[verifier::external_body]
pub fn vx_opt_to_owned(o: Option<&Statement>) -> (r: Option<Statement>)
    ensures r.is_some() == o.is_some(), o matches Some(s) ==> r == Some(*s)
{ unimplemented!() }

// Weak<StatementCache>: only its identity matters
pub struct WeakRef { pub id: Ghost<int> }
impl WeakRef {
    pub fn ptr_eq(&self, other: &WeakRef) -> (r: bool) ensures r == (self.id@ == other.id@) { vx_ghost_eq(self.id, other.id) }
    // Weak::strong_count: whether the cache is still alive is a fact about the heap, which a `Weak` alone does not determine: any answer
    #[verifier::external_body]
    pub fn strong_count(&self) -> (r: usize) { unimplemented!() }
}
#[verifier::external_body]
pub fn vx_ghost_eq(a: Ghost<int>, b: Ghost<int>) -> (r: bool) ensures r == (a@ == b@) { unimplemented!() }
pub fn vx_downgrade(c: &StatementCache) -> (w: WeakRef) ensures w.id@ == c.cid@ { WeakRef { id: c.cid } }

// the boxed `dyn Connect`
#[verifier::external_body]
pub struct ConnectBox { _p: () }
impl ConnectBox {
    #[verifier::external_body]
    pub fn connect(&self, cfg: &PgConfigOpaque) -> (r: Ctl<Result<(PgClient, JoinHandle<()>), Error>>)
        ensures r matches Ctl::Done(Ok(p)) ==> !p.0.closed@ && p.0.sent@.len() == 0 && p.0.prepared@.len() == 0
    { unimplemented!() }
}
#[verifier::external_body]
pub struct PgConfigOpaque { _p: () }

// ---- the heap of live statement caches, addressed by the identity a `Weak<StatementCache>` carries -----------------------
// `Weak::upgrade()` succeeds exactly for the caches that are still alive; the upgraded `Arc` is the cache itself. The
// extractor turns `if let Some(c) = w.upgrade() { B }` into take_/put_ around B (rule `heapupgrade`).
pub struct CacheHeap { pub live: Ghost<Map<int, StatementCache>> }
impl CacheHeap {
    pub open spec fn wf(&self) -> bool {
        forall|id: int| #[trigger] self.live@.dom().contains(id) ==> self.live@[id].cid@ == id && !self.live@[id].map.held@
    }
    #[verifier::external_body]
    pub fn alive_(&self, w: &WeakRef) -> (r: bool)
        ensures r == self.live@.dom().contains(w.id@)
    { unimplemented!() }
    #[verifier::external_body]
    pub fn take_(&mut self, w: &WeakRef) -> (c: StatementCache)
        requires old(self).live@.dom().contains(w.id@)
        ensures c == old(self).live@[w.id@], final(self).live@ == old(self).live@.remove(w.id@)
    { unimplemented!() }
    #[verifier::external_body]
    pub fn put_(&mut self, c: StatementCache)
        ensures final(self).live@ == old(self).live@.insert(c.cid@, c)
    { unimplemented!() }
}
