// Trusted model for the redis configuration unit.
#[verifier::external_body]
pub struct RedisError { _p: () }
#[verifier::external_body]
pub struct PathBuf { _p: () }
#[verifier::external_body]
pub struct TlsConnParams { _p: () }

// what a redis Manager connects to: decided by `redis::Client::open(params)` from `params.into_connection_info()`
pub enum Target { Url(Seq<char>), Info(RConnectionInfo) }
pub trait IntoConnectionInfoSpec: Sized {
    spec fn target_spec(self) -> Target;
}
// redis::IntoConnectionInfo: a value that names its server as a connection structure converts to exactly that structure
pub trait IntoConnectionInfo: IntoConnectionInfoSpec {
    fn into_connection_info(self) -> (r: Result<RConnectionInfo, RedisError>)
        ensures self.target_spec() matches Target::Info(i) ==> r == Ok::<RConnectionInfo, RedisError>(i);
}
impl IntoConnectionInfoSpec for &Str {
    open spec fn target_spec(self) -> Target { Target::Url(self@) }
}
impl IntoConnectionInfo for &Str {
    // URL parsing (redis crate): arbitrary outcome
    #[verifier::external_body]
    fn into_connection_info(self) -> (r: Result<RConnectionInfo, RedisError>) { unimplemented!() }
}
// redis::Client::open(params): fails exactly on malformed parameters (arbitrary here), never panics; the client connects to
// what `params.into_connection_info()` names
pub struct Client { pub target: Ghost<Target> }
impl Client {
    #[verifier::external_body]
    pub fn open<T: IntoConnectionInfo>(params: T) -> (r: Result<Client, RedisError>)
        ensures r matches Ok(c) ==> c.target@ == params.target_spec()
    { unimplemented!() }
}
#[verifier::external_body]
pub struct AsyncConnectionConfig { _p: () }
impl AsyncConnectionConfig {
    pub uninterp spec fn default_spec() -> AsyncConnectionConfig;
    #[verifier::external_body]
    pub fn default() -> (r: Self) ensures r == Self::default_spec() { unimplemented!() }
}
pub type RedisResult<T> = Result<T, RedisError>;
