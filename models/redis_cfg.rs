// Trusted model for the redis configuration unit.
#[verifier::external_body]
pub struct RedisError { _p: () }
#[verifier::external_body]
pub struct PathBuf { _p: () }
#[verifier::external_body]
pub struct TlsConnParams { _p: () }

// what a redis Manager connects to: decided by `redis::Client::open(params)` from `params.into_connection_info()`
pub enum Target { Url(Seq<char>), Info(RConnectionInfo) }
pub trait IntoConnectionInfo: Sized {
    spec fn target_spec(self) -> Target;
}
impl IntoConnectionInfo for &Str {
    open spec fn target_spec(self) -> Target { Target::Url(self@) }
}
pub struct Manager { pub target: Ghost<Target> }
impl Manager {
    // crate::Manager::new(params) = Client::open(params)?: fails exactly on malformed parameters (arbitrary here), never panics
    #[verifier::external_body]
    pub fn new<T: IntoConnectionInfo>(params: T) -> (r: Result<Manager, RedisError>)
        ensures r matches Ok(m) ==> m.target@ == params.target_spec()
    { unimplemented!() }
}
// deadpool::managed::Pool::builder(manager).config(cfg) (contracts proved in unit mg: builder.holds_the_manager_untouched,
// builder_config.sets_only_config)
pub struct PoolBuilder { pub manager: Manager, pub config: PoolConfig }
pub struct Pool { }
impl Pool {
    #[verifier::external_body]
    pub fn builder(manager: Manager) -> (r: PoolBuilder) ensures r.manager == manager { unimplemented!() }
}
impl PoolBuilder {
    #[verifier::external_body]
    pub fn config(self, value: PoolConfig) -> (r: PoolBuilder) ensures r.manager == self.manager, r.config == value { unimplemented!() }
}
