// Trusted model for the redis configuration unit.
#[verifier::external_body]
pub struct RedisError { _p: () }
#[verifier::external_body]
pub struct PathBuf { _p: () }
#[verifier::external_body]
pub struct TlsConnParams { _p: () }

// what a redis Manager connects to: decided by `redis::Client::open(params)` from `params.into_connection_info()`
pub enum Target { Url(Seq<char>), Info(RConnectionInfo) }
pub trait IntoConnectionInfoSpec: Sized {
    spec fn target_spec(self) -> Target;
}
// redis::IntoConnectionInfo: a value that names its server as a connection structure converts to exactly that structure
pub trait IntoConnectionInfo: IntoConnectionInfoSpec {
    fn into_connection_info(self) -> (r: Result<RConnectionInfo, RedisError>)
        ensures self.target_spec() matches Target::Info(i) ==> r == Ok::<RConnectionInfo, RedisError>(i),
            self.target_spec() matches Target::Url(s) ==> (r matches Ok(i) ==> parse_url(s) == Some(i)) && (r is Err ==> parse_url(s) is None);
}
// URL parsing of the redis crate: an uninterpreted function of the text (None = malformed)
pub uninterp spec fn parse_url(s: Seq<char>) -> Option<RConnectionInfo>;
// two ways of naming the same server: literally the same target, or a URL and the structure it parses to
pub open spec fn same_server(a: Target, b: Target) -> bool {
    a == b
    || (a matches Target::Url(s) && b matches Target::Info(i) && parse_url(s) == Some(i))
    || (b matches Target::Url(s) && a matches Target::Info(i) && parse_url(s) == Some(i))
}
impl IntoConnectionInfoSpec for &Str {
    open spec fn target_spec(self) -> Target { Target::Url(self@) }
}
impl IntoConnectionInfo for &Str {
    #[verifier::external_body]
    fn into_connection_info(self) -> (r: Result<RConnectionInfo, RedisError>)
        ensures r matches Ok(i) ==> parse_url(self@) == Some(i), r is Err ==> parse_url(self@) is None
    { unimplemented!() }
}
// the redis crate's own structure names itself
impl IntoConnectionInfoSpec for RConnectionInfo {
    open spec fn target_spec(self) -> Target { Target::Info(self) }
}
impl IntoConnectionInfo for RConnectionInfo {
    fn into_connection_info(self) -> (r: Result<RConnectionInfo, RedisError>) { Ok(self) }
}
// redis::Client::open(params): fails exactly on malformed parameters (arbitrary here), never panics; the client connects to
// what `params.into_connection_info()` names
pub struct Client { pub target: Ghost<Target> }
impl Client {
    #[verifier::external_body]
    pub fn open<T: IntoConnectionInfo>(params: T) -> (r: Result<Client, RedisError>)
        ensures r matches Ok(c) ==> c.target@ == params.target_spec(),
            // it is `params.into_connection_info()?` and nothing else: a URL must parse, a structure always succeeds
            r is Ok ==> (params.target_spec() matches Target::Url(s) ==> parse_url(s) is Some),
            (params.target_spec() matches Target::Url(s) && parse_url(s) is None) ==> r is Err,
            params.target_spec() is Info ==> r is Ok
    { unimplemented!() }
}
#[verifier::external_body]
pub struct AsyncConnectionConfig { _p: () }
impl AsyncConnectionConfig {
    pub uninterp spec fn default_spec() -> AsyncConnectionConfig;
    #[verifier::external_body]
    pub fn default() -> (r: Self) ensures r == Self::default_spec() { unimplemented!() }
}
pub type RedisResult<T> = Result<T, RedisError>;
