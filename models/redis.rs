// Trusted model of the parts of the `redis` crate used by deadpool-redis (A7).
#[verifier::external_body]
pub struct RedisError { _p: () }
// RedisError::retry_method(): how the `redis` crate classifies an error reply; opaque here (any answer is possible)
pub enum RetryMethod { Reconnect, NoRetry, RetryImmediately, WaitAndRetry, AskRedirect, MovedRedirect, ReconnectFromInitialConnections }
impl RedisError {
    #[verifier::external_body]
    pub fn retry_method(&self) -> (r: RetryMethod) { unimplemented!() }
}

// one command of a pipeline: name, arguments, and whether its reply is ignored
pub struct CmdV { pub name: Seq<char>, pub args: Seq<Seq<char>>, pub ignored: bool }

#[verifier::external_body]
pub struct Pipeline { _p: () }
pub uninterp spec fn pl_view(p: &Pipeline) -> Seq<CmdV>;
impl View for Pipeline {
    type V = Seq<CmdV>;
    closed spec fn view(&self) -> Seq<CmdV> { pl_view(self) }
}
pub open spec fn with_arg(c: CmdV, a: Seq<char>) -> CmdV { CmdV { args: c.args.push(a), ..c } }
pub open spec fn set_ignored(c: CmdV) -> CmdV { CmdV { ignored: true, ..c } }

impl Pipeline {
    #[verifier::external_body]
    pub fn with_capacity(n: usize) -> (r: Pipeline) ensures r@ == Seq::<CmdV>::empty() { unimplemented!() }
    // builder methods return `&mut Self` (prophecy-style contract: the returned reference is the pipeline itself)
    #[verifier::external_body]
    pub fn cmd(&mut self, name: &Str) -> (r: &mut Pipeline)
        ensures r@ == old(self)@.push(CmdV { name: name@, args: Seq::empty(), ignored: false }), *final(self) == *final(r)
    { unimplemented!() }
    #[verifier::external_body]
    pub fn arg(&mut self, a: &Str) -> (r: &mut Pipeline)
        requires old(self)@.len() > 0
        ensures r@ == old(self)@.drop_last().push(with_arg(old(self)@.last(), a@)), *final(self) == *final(r)
    { unimplemented!() }
    #[verifier::external_body]
    pub fn ignore(&mut self) -> (r: &mut Pipeline)
        requires old(self)@.len() > 0
        ensures r@ == old(self)@.drop_last().push(set_ignored(old(self)@.last())), *final(self) == *final(r)
    { unimplemented!() }
    // sends the pipeline on `conn` and awaits the replies of the non-ignored commands; anything may come back
    #[verifier::external_body]
    pub fn query_async<T>(&self, conn: &mut MultiplexedConnection) -> (r: Ctl<Result<T, RedisError>>)
        ensures final(conn).sent() == old(conn).sent().push(self@),
            final(conn).last_outcome() == (match r { Ctl::Done(Ok(v)) => Outcome::Reply(reply_text(v)), Ctl::Done(Err(_)) => Outcome::Error, Ctl::Unwind => Outcome::Cancelled }),
    { unimplemented!() }
}

#[verifier::external_body]
pub struct MultiplexedConnection { _p: () }
impl MultiplexedConnection {
    // ghost log of the pipelines sent on this connection
    pub uninterp spec fn sent(&self) -> Seq<Seq<CmdV>>;
    // what came back for the last pipeline
    pub uninterp spec fn last_outcome(&self) -> Outcome;
}

pub enum Outcome { Reply(Seq<char>), Error, Cancelled }
// the text of a reply decoded as `(String,)`
pub uninterp spec fn reply_text<T>(v: T) -> Seq<char>;
pub axiom fn axiom_reply_text_tuple1(v: (Str,)) ensures reply_text::<(Str,)>(v) == v.0@;
