//! Witness search (auxiliary, never deciding): random sequential histories against the REAL pools with a scripted manager,
//! judged by an independent ground truth (objects carry ids; create / recycle / hooks / detach / Drop are logged by the
//! objects and the manager themselves). `check` runs it only after a deductive violation, to attach a concrete failing
//! history to the report; in the thorough tier it also runs on the unchanged tree and must find nothing.
//!
//! The oracle states only what the properties state for *sequential* histories and stays away from the recorded known
//! findings (shrinking a pool that has free permits: C07; the resize/close race: C06 — neither can occur here because
//! a history never shrinks a pool that is not full of checked-out or idle objects... see `can_shrink`).

use deadpool::managed::{self, Hook, HookError, Metrics, Object, PoolError, QueueMode, RecycleError, RecycleResult, Timeouts};
use deadpool::unmanaged;
use std::collections::{BTreeMap, BTreeSet};
use std::sync::{Arc, Mutex};
use std::time::Duration;

pub type Outcome = Result<(), String>;

struct Rng(u64);
impl Rng {
    fn next(&mut self) -> u64 {
        self.0 = self.0.wrapping_mul(6364136223846793005).wrapping_add(1442695040888963407);
        self.0 >> 33
    }
    fn below(&mut self, n: u64) -> u64 {
        self.next() % n
    }
    fn chance(&mut self, pct: u64) -> bool {
        self.below(100) < pct
    }
}

#[derive(Default)]
struct Log {
    created: Vec<usize>,
    detached: Vec<usize>,
    dropped: Vec<usize>,
    events: BTreeMap<usize, Vec<String>>, // per object, since its last hand-out
    recycled_ok: BTreeMap<usize, usize>,  // successful hand-outs after the first
    fail_create: bool,
    fail_recycle: bool,
    fail_pre: bool,
    fail_post: bool,
    fail_post_create: bool,
    fail_pre2: bool,
    fail_post2: bool,
    fail_post_create2: bool,
}

struct Obj {
    id: usize,
    log: Arc<Mutex<Log>>,
}
impl Drop for Obj {
    fn drop(&mut self) {
        self.log.lock().unwrap().dropped.push(self.id);
    }
}

struct Mgr {
    log: Arc<Mutex<Log>>,
}
impl managed::Manager for Mgr {
    type Type = Obj;
    type Error = String;
    async fn create(&self) -> Result<Obj, String> {
        let mut l = self.log.lock().unwrap();
        if l.fail_create {
            return Err("create".into());
        }
        let id = l.created.len();
        l.created.push(id);
        l.events.entry(id).or_default().push("create".into());
        Ok(Obj { id, log: self.log.clone() })
    }
    async fn recycle(&self, o: &mut Obj, _: &Metrics) -> RecycleResult<String> {
        let mut l = self.log.lock().unwrap();
        l.events.entry(o.id).or_default().push("recycle".into());
        if l.fail_recycle {
            return Err(RecycleError::message("recycle"));
        }
        Ok(())
    }
    fn detach(&self, o: &mut Obj) {
        self.log.lock().unwrap().detached.push(o.id);
    }
}

type Pool = managed::Pool<Mgr>;

fn build(max_size: usize, mode: QueueMode, log: &Arc<Mutex<Log>>) -> Pool {
    let (l1, l2, l3) = (log.clone(), log.clone(), log.clone());
    Pool::builder(Mgr { log: log.clone() })
        .max_size(max_size)
        .queue_mode(mode)
        .post_create(Hook::sync_fn(move |o: &mut Obj, _| {
            let mut l = l1.lock().unwrap();
            l.events.entry(o.id).or_default().push("post_create".into());
            if l.fail_post_create { Err(HookError::message("pc")) } else { Ok(()) }
        }))
        .pre_recycle(Hook::sync_fn(move |o: &mut Obj, _| {
            let mut l = l2.lock().unwrap();
            l.events.entry(o.id).or_default().push("pre_recycle".into());
            if l.fail_pre { Err(HookError::message("pre")) } else { Ok(()) }
        }))
        .post_recycle(Hook::sync_fn(move |o: &mut Obj, _| {
            let mut l = l3.lock().unwrap();
            l.events.entry(o.id).or_default().push("post_recycle".into());
            if l.fail_post { Err(HookError::message("post")) } else { Ok(()) }
        }))
        .post_create(Hook::sync_fn({ let l = log.clone(); move |o: &mut Obj, _| {
            let mut l = l.lock().unwrap();
            l.events.entry(o.id).or_default().push("post_create2".into());
            if l.fail_post_create2 { Err(HookError::message("pc2")) } else { Ok(()) }
        }}))
        .pre_recycle(Hook::sync_fn({ let l = log.clone(); move |o: &mut Obj, _| {
            let mut l = l.lock().unwrap();
            l.events.entry(o.id).or_default().push("pre_recycle2".into());
            if l.fail_pre2 { Err(HookError::message("pre2")) } else { Ok(()) }
        }}))
        .post_recycle(Hook::sync_fn({ let l = log.clone(); move |o: &mut Obj, m: &Metrics| {
            let mut l = l.lock().unwrap();
            l.events.entry(o.id).or_default().push(format!("post_recycle2 rc{}", m.recycle_count));
            if l.fail_post2 { Err(HookError::message("post2")) } else { Ok(()) }
        }}))
        .build()
        .unwrap()
}

fn nowait() -> Timeouts {
    Timeouts { wait: Some(Duration::from_secs(0)), create: None, recycle: None }
}

fn run_managed(seed: u64) -> Outcome {
    let mut r = Rng(seed.wrapping_mul(0x9E3779B97F4A7C15) ^ 0xD1B54A32D192ED03);
    let log = Arc::new(Mutex::new(Log::default()));
    let mut max_size = 1 + r.below(3) as usize;
    let mode = if r.chance(50) { QueueMode::Fifo } else { QueueMode::Lifo };
    let pool = build(max_size, mode, &log);
    let rt = tokio::runtime::Builder::new_current_thread().build().unwrap();
    let mut held: Vec<Object<Mgr>> = vec![];
    let mut taken: Vec<Obj> = vec![]; // objects taken out of the pool (kept alive so that Drop is not confused with the pool's)
    let mut idle_model: Vec<usize> = vec![]; // expected idle queue, oldest first
    let mut closed = false;
    let mut shrunk = false;
    let mut hist: Vec<String> = vec![];
    let steps = 4 + r.below(22);
    macro_rules! bad {
        ($($a:tt)*) => { return Err(format!("{} | history (seed {}, max_size {}, {:?}): {}", format!($($a)*), seed, max_size, mode, hist.join("; "))) };
    }
    for _ in 0..steps {
        let op = r.below(100);
        if op < 45 {
            // get (non-blocking), with scripted failures
            {
                let mut l = log.lock().unwrap();
                l.fail_create = r.chance(10);
                l.fail_recycle = r.chance(12);
                l.fail_pre = r.chance(8);
                l.fail_post = r.chance(8);
                l.fail_post_create = r.chance(8);
                l.fail_pre2 = r.chance(6);
                l.fail_post2 = r.chance(6);
                l.fail_post_create2 = r.chance(6);
                for v in l.events.values_mut() {
                    v.clear();
                }
            }
            let before_created = log.lock().unwrap().created.len();
            let res = rt.block_on(pool.timeout_get(&nowait()));
            let l = log.lock().unwrap();
            hist.push(format!("get[c{} r{} p{} q{} pc{}] -> {}", l.fail_create as u8, l.fail_recycle as u8, l.fail_pre as u8, l.fail_post as u8, l.fail_post_create as u8,
                match &res { Ok(o) => format!("#{}", o.id), Err(e) => format!("{:?}", e).chars().take(24).collect() }));
            // objects the script rejects leave the idle model (front or back, in queue order) until one is accepted
            let expect_order: Vec<usize> = if matches!(mode, QueueMode::Fifo) { idle_model.clone() } else { idle_model.iter().rev().cloned().collect() };
            let reject_all = l.fail_recycle || l.fail_pre || l.fail_post || l.fail_pre2 || l.fail_post2;
            match &res {
                Ok(o) => {
                    if closed { drop(l); bad!("C06: get() on a closed pool yielded object #{}", o.id); }
                    let ev = l.events.get(&o.id).cloned().unwrap_or_default();
                    if before_created < l.created.len() && l.created.last() == Some(&o.id) {
                        if ev != vec!["create".to_string(), "post_create".to_string(), "post_create2".to_string()] { drop(l); bad!("C04: new object #{} handed out after {:?}", o.id, ev); }
                        if !reject_all && !expect_order.is_empty() { drop(l); bad!("C08: object #{} created although idle objects {:?} were available", o.id, expect_order); }
                    } else {
                        // the hooks of one kind run in registration order; post_recycle hooks see the metrics from BEFORE this hand-out (C13)
                        let seen_rc = l.recycled_ok.get(&o.id).cloned().unwrap_or(0);
                        let want = vec!["pre_recycle".to_string(), "pre_recycle2".to_string(), "recycle".to_string(), "post_recycle".to_string(), format!("post_recycle2 rc{}", seen_rc)];
                        if ev.len() == want.len() && ev[..4] == want[..4] && ev[4] != want[4] { let e4 = ev[4].clone(); drop(l); bad!("C13: post_recycle hook of #{} saw `{}`, the object had been reused {} times before this hand-out", o.id, e4, seen_rc); }
                        if ev != want { drop(l); bad!("C04: idle object #{} handed out after {:?}", o.id, ev); }
                        if reject_all { drop(l); bad!("C04: object #{} handed out although a recycling step failed", o.id); }
                        if expect_order.first() != Some(&o.id) { drop(l); bad!("C08: {:?} pool offered #{}, expected #{:?} (idle {:?})", mode, o.id, expect_order.first(), idle_model); }
                    }
                }
                Err(PoolError::Closed) => { if !closed { drop(l); bad!("C06: Closed from an open pool"); } }
                Err(PoolError::Timeout(_)) | Err(PoolError::Backend(_)) | Err(PoolError::PostCreateHook(_)) => {}
                Err(e) => { let e = format!("{:?}", e); drop(l); bad!("C04: undocumented error {}", e); }
            }
            drop(l);
            // update the idle model: with a rejecting script every idle object tried is discarded
            if !closed {
                if reject_all {
                    idle_model.clear();
                } else if let Ok(o) = &res {
                    idle_model.retain(|x| *x != o.id);
                }
            }
            if let Ok(o) = res {
                if !idle_model.contains(&o.id) {
                    let mut l = log.lock().unwrap();
                    if l.created.last() != Some(&o.id) || before_created == l.created.len() {
                        *l.recycled_ok.entry(o.id).or_default() += 1;
                    }
                    let want = l.recycled_ok.get(&o.id).cloned().unwrap_or(0);
                    let got = Object::metrics(&o).recycle_count;
                    if got != want { drop(l); bad!("C13: object #{} reports recycle_count {} after {} reuses", o.id, got, want); }
                }
                held.push(o);
            }
        } else if op < 70 {
            if !held.is_empty() {
                let i = r.below(held.len() as u64) as usize;
                let o = held.swap_remove(i);
                let id = o.id;
                hist.push(format!("drop #{}", id));
                let surplus = pool.status().size > pool.status().max_size;
                drop(o);
                if !closed && !surplus {
                    idle_model.push(id);
                }
            }
        } else if op < 78 {
            if !held.is_empty() {
                let i = r.below(held.len() as u64) as usize;
                let o = held.swap_remove(i);
                hist.push(format!("take #{}", o.id));
                taken.push(Object::take(o));
            }
        } else if op < 86 {
            // retain with a predicate on the id
            let keep_even = r.chance(50);
            hist.push(format!("retain(id%2=={})", if keep_even { 0 } else { 1 }));
            let before = idle_model.clone();
            let res = pool.retain(|o, _| (o.id % 2 == 0) == keep_even);
            let want_removed: Vec<usize> = before.iter().cloned().filter(|x| (x % 2 == 0) != keep_even).collect();
            let got_removed: Vec<usize> = res.removed.iter().map(|o| o.id).collect();
            if !closed {
                if got_removed != want_removed { bad!("C09: retain removed {:?}, expected {:?}", got_removed, want_removed); }
                if res.retained != before.len() - want_removed.len() { bad!("C09: retain reports retained = {}, expected {}", res.retained, before.len() - want_removed.len()); }
                idle_model.retain(|x| (x % 2 == 0) == keep_even);
            }
            taken.extend(res.removed);
        } else if op < 92 {
            // grow, or shrink only when every slot is accounted for by an object (stays clear of the known finding C07)
            let st = pool.status();
            let n = 1 + r.below(3) as usize;
            if n > max_size || (n < max_size && st.size == max_size && !shrunk) {
                hist.push(format!("resize({})", n));
                let was = max_size;
                pool.resize(n);
                if !closed {
                    if n < was {
                        shrunk = true;
                        // idle surplus is released oldest first
                        let surplus = (st.size - n).min(idle_model.len());
                        idle_model.drain(0..surplus);
                    }
                    max_size = n;
                }
            }
        } else if op < 95 {
            hist.push("close".into());
            pool.close();
            closed = true;
            idle_model.clear();
        } else {
            let st = pool.status();
            hist.push(format!("status {:?}", (st.max_size, st.size, st.available, st.waiting)));
        }
        // ---- ground truth after every step (the pool is at rest) ----
        let l = log.lock().unwrap();
        let mut seen = BTreeSet::new();
        for d in l.detached.iter() {
            if !seen.insert(*d) { let d = *d; drop(l); bad!("C09: object #{} detached twice", d); }
        }
        let held_ids: BTreeSet<usize> = held.iter().map(|o| o.id).collect();
        let taken_ids: BTreeSet<usize> = taken.iter().map(|o| o.id).collect();
        for id in l.dropped.iter() {
            if !l.detached.contains(id) { let id = *id; drop(l); bad!("C09: object #{} was destroyed by the pool without Manager::detach", id); }
        }
        for id in l.detached.iter() {
            if held_ids.contains(id) { let id = *id; drop(l); bad!("C09: object #{} detached while a caller holds it", id); }
        }
        let in_pool: Vec<usize> = l.created.iter().cloned().filter(|id| !l.detached.contains(id)).collect();
        let live = in_pool.len();
        let st = pool.status();
        let want_max = if closed { 0 } else { max_size };
        if st.max_size != want_max { drop(l); bad!("C11: status().max_size = {}, expected {}", st.max_size, want_max); }
        if st.size != live { drop(l); bad!("C11: status().size = {}, but {} objects exist in the pool ({:?})", st.size, live, in_pool); }
        if live > max_size.max(held_ids.len()) && !closed { drop(l); bad!("C01: {} live objects with max_size {} ({} checked out)", live, max_size, held_ids.len()); }
        let idle_now: Vec<usize> = in_pool.iter().cloned().filter(|id| !held_ids.contains(id)).collect();
        if st.available != idle_now.len() { drop(l); bad!("C11: status().available = {}, but {} objects are idle", st.available, idle_now.len()); }
        if st.waiting != 0 { drop(l); bad!("C11: status().waiting = {} at rest", st.waiting); }
        if closed && !idle_now.is_empty() { drop(l); bad!("C06: closed pool keeps idle objects {:?}", idle_now); }
        let _ = taken_ids;
    }
    // C02: without a shrink in the history, an open pool can again hand out max_size objects at once
    if !closed && !shrunk {
        {
            let mut l = log.lock().unwrap();
            l.fail_create = false; l.fail_recycle = false; l.fail_pre = false; l.fail_post = false; l.fail_post_create = false; l.fail_pre2 = false; l.fail_post2 = false; l.fail_post_create2 = false;
        }
        held.clear();
        hist.push("return everything; refill".into());
        let mut got = vec![];
        for k in 0..max_size {
            match rt.block_on(pool.timeout_get(&nowait())) {
                Ok(o) => got.push(o),
                Err(e) => bad!("C02: after everything was returned only {} of {} objects can be checked out ({:?})", k, max_size, e),
            }
        }
    }
    Ok(())
}

// (helper that keeps the borrow checker quiet in the macro-heavy block above)
fn drop_and<T, R>(_l: &T, f: impl FnOnce() -> R) -> Box<R> {
    Box::new(f())
}

pub fn search_managed() -> Outcome {
    let n: u64 = std::env::var("VERIF_SEARCH_N").ok().and_then(|s| s.parse().ok()).unwrap_or(4000);
    for seed in 1..=n {
        run_managed(seed)?;
    }
    eprintln!("search_managed: {} random histories, nothing found", n);
    Ok(())
}

// ---- unmanaged pool ---------------------------------------------------------------------------------------------------
struct UObj {
    id: usize,
    drops: Arc<Mutex<Vec<usize>>>,
}
impl Drop for UObj {
    fn drop(&mut self) {
        self.drops.lock().unwrap().push(self.id);
    }
}

fn run_unmanaged(seed: u64) -> Outcome {
    let mut r = Rng(seed.wrapping_mul(0xA24BAED4963EE407) ^ 0x9FB21C651E98DF25);
    let drops = Arc::new(Mutex::new(Vec::new()));
    let max_size = 1 + r.below(3) as usize;
    let pool: unmanaged::Pool<UObj> = unmanaged::Pool::new(max_size);
    let mut next = 0usize;
    let mut idle: Vec<usize> = vec![]; // expected queue (LIFO: the last pushed is handed out first)
    let mut held: Vec<unmanaged::Object<UObj>> = vec![];
    let mut kept: Vec<UObj> = vec![]; // handed back to the caller (refused add, remove, take)
    let mut closed = false;
    let mut hist: Vec<String> = vec![];
    macro_rules! bad {
        ($($a:tt)*) => { return Err(format!("{} | history (seed {}, max_size {}): {}", format!($($a)*), seed, max_size, hist.join("; "))) };
    }
    for _ in 0..(4 + r.below(22)) {
        let op = r.below(100);
        let in_pool = idle.len() + held.len();
        if op < 30 {
            let id = next; next += 1;
            let res = pool.try_add(UObj { id, drops: drops.clone() });
            hist.push(format!("try_add #{} -> {}", id, match &res { Ok(()) => "ok".to_string(), Err((_, e)) => format!("{:?}", e) }));
            match res {
                Ok(()) => {
                    if closed { bad!("C12: try_add on a closed pool kept object #{}", id); }
                    if in_pool >= max_size { bad!("C05: try_add succeeded on a full pool ({} of {})", in_pool, max_size); }
                    idle.push(id);
                }
                Err((o, e)) => {
                    if o.id != id { bad!("C05: try_add handed back #{} instead of #{}", o.id, id); }
                    match e {
                        unmanaged::PoolError::Closed => { if !closed { bad!("C12: Closed from an open pool"); } }
                        unmanaged::PoolError::Timeout => { if closed { bad!("C12: try_add on a closed pool reports Timeout instead of Closed"); } if in_pool < max_size { bad!("C05: try_add reports Timeout although only {} of {} slots are used", in_pool, max_size); } }
                        other => bad!("C12: undocumented error {:?}", other),
                    }
                    kept.push(o);
                }
            }
        } else if op < 60 {
            let res = pool.try_get();
            hist.push(format!("try_get -> {}", match &res { Ok(o) => format!("#{}", o.id), Err(e) => format!("{:?}", e) }));
            match res {
                Ok(o) => {
                    if closed { bad!("C12: try_get on a closed pool yielded #{}", o.id); }
                    match idle.pop() {
                        Some(want) if want == o.id => {}
                        other => bad!("C05: try_get yielded #{}, the queue holds {:?} (+{:?})", o.id, idle, other),
                    }
                    held.push(o);
                }
                Err(unmanaged::PoolError::Closed) => { if !closed { bad!("C12: Closed from an open pool"); } }
                Err(unmanaged::PoolError::Timeout) => { if closed { bad!("C12: try_get on a closed pool reports Timeout"); } if !idle.is_empty() { bad!("C10: try_get reports Timeout although {:?} are queued", idle); } }
                Err(e) => bad!("C12: undocumented error {:?}", e),
            }
        } else if op < 75 {
            if !held.is_empty() {
                let i = r.below(held.len() as u64) as usize;
                let o = held.swap_remove(i);
                let id = o.id;
                hist.push(format!("return #{}", id));
                drop(o);
                if !closed { idle.push(id); }
            }
        } else if op < 83 {
            if !held.is_empty() {
                let i = r.below(held.len() as u64) as usize;
                let o = held.swap_remove(i);
                hist.push(format!("take #{}", o.id));
                kept.push(unmanaged::Object::take(o));
            }
        } else if op < 90 {
            let res = pool.try_remove();
            hist.push(format!("try_remove -> {}", match &res { Ok(o) => format!("#{}", o.id), Err(e) => format!("{:?}", e) }));
            match res {
                Ok(o) => {
                    if closed { bad!("C12: try_remove on a closed pool yielded #{}", o.id); }
                    match idle.pop() { Some(want) if want == o.id => {}, _ => bad!("C05: try_remove yielded #{}, expected the last queued of {:?}", o.id, idle) }
                    kept.push(o);
                }
                Err(unmanaged::PoolError::Closed) => { if !closed { bad!("C12: Closed from an open pool"); } }
                Err(unmanaged::PoolError::Timeout) => { if closed || !idle.is_empty() { bad!("C10: try_remove reports Timeout (closed {}, queued {:?})", closed, idle); } }
                Err(e) => bad!("C12: undocumented error {:?}", e),
            }
        } else if op < 94 {
            hist.push("close".into());
            pool.close();
            closed = true;
            idle.clear();
        } else {
            hist.push(format!("status {:?}", pool.status()));
        }
        // ---- ground truth ----
        let d = drops.lock().unwrap().clone();
        for id in d.iter() {
            if held.iter().any(|o| o.id == *id) || kept.iter().any(|o| o.id == *id) { bad!("C05: object #{} was destroyed while a caller holds it", id); }
            if !closed && idle.contains(id) { bad!("C05: queued object #{} was destroyed while the pool is open", id); }
        }
        let st = pool.status();
        if !closed {
            if st.size != idle.len() + held.len() { bad!("C05: status().size = {}, {} queued + {} held", st.size, idle.len(), held.len()); }
            if st.available != idle.len() as isize as usize && st.available != idle.len() { bad!("C05: status().available = {}, {} queued", st.available, idle.len()); }
            if st.size > max_size { bad!("C05: {} objects in a pool of {}", st.size, max_size); }
        }
    }
    Ok(())
}

pub fn search_unmanaged() -> Outcome {
    let n: u64 = std::env::var("VERIF_SEARCH_N").ok().and_then(|s| s.parse().ok()).unwrap_or(4000);
    for seed in 1..=n {
        run_unmanaged(seed)?;
    }
    eprintln!("search_unmanaged: {} random histories, nothing found", n);
    Ok(())
}
