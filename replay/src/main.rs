//! replay <scenario> — exit 1 and print `REPRODUCED: ...` if the history violates the property on the real code,
//! exit 0 and print `NOT-REPRODUCED` otherwise.  `replay --list` lists the scenarios.
mod models;
mod search;
use deadpool::managed::{self, Metrics, RecycleResult, Timeouts};
use deadpool::unmanaged;
use deadpool::verif;
use std::panic::{catch_unwind, AssertUnwindSafe};
use std::sync::atomic::{AtomicUsize, Ordering};
use std::sync::Arc;
use std::time::Duration;

// ---- ground truth: objects counted by construction / destruction, manager calls counted -------------------
#[derive(Default)]
struct Truth {
    created: AtomicUsize,
    dropped: AtomicUsize,
    detached: AtomicUsize,
    recycled: AtomicUsize,
}
struct Obj {
    #[allow(dead_code)]
    id: usize,
    truth: Arc<Truth>,
}
impl Drop for Obj {
    fn drop(&mut self) {
        self.truth.dropped.fetch_add(1, Ordering::SeqCst);
    }
}
struct Mgr {
    truth: Arc<Truth>,
}
impl managed::Manager for Mgr {
    type Type = Obj;
    type Error = ();
    async fn create(&self) -> Result<Obj, ()> {
        let id = self.truth.created.fetch_add(1, Ordering::SeqCst);
        Ok(Obj { id, truth: self.truth.clone() })
    }
    async fn recycle(&self, _o: &mut Obj, _m: &Metrics) -> RecycleResult<()> {
        self.truth.recycled.fetch_add(1, Ordering::SeqCst);
        Ok(())
    }
    fn detach(&self, _o: &mut Obj) {
        self.truth.detached.fetch_add(1, Ordering::SeqCst);
    }
}
type MPool = managed::Pool<Mgr>;
fn mpool(max: usize) -> (MPool, Arc<Truth>) {
    let truth = Arc::new(Truth::default());
    let p = MPool::builder(Mgr { truth: truth.clone() }).max_size(max).build().unwrap();
    (p, truth)
}
fn live(t: &Truth) -> usize {
    t.created.load(Ordering::SeqCst) - t.dropped.load(Ordering::SeqCst)
}
fn rt() -> tokio::runtime::Runtime {
    tokio::runtime::Builder::new_current_thread().enable_time().build().unwrap()
}
fn nowait() -> Timeouts {
    Timeouts { wait: Some(Duration::from_secs(0)), create: None, recycle: None }
}

type Outcome = Result<(), String>; // Err(msg) = reproduced

// C12 / D6: close() clears the queue between permit acquisition and pop
fn um_get_close_race() -> Outcome {
    let pool = unmanaged::Pool::from(vec![1u32]);
    let p2 = pool.clone();
    verif::set_hook(Some(Box::new(move |name| {
        if name == "um.get.after_permit" {
            p2.close();
        }
    })));
    let r = catch_unwind(AssertUnwindSafe(|| pool.try_get().map(|o| *o)));
    verif::set_hook(None);
    match r {
        Err(_) => Err("try_get() panicked (queue.pop().unwrap() on a queue cleared by a concurrent close())".into()),
        Ok(Err(unmanaged::PoolError::Closed)) => Ok(()),
        Ok(other) => Err(format!("try_get() racing with close() returned {:?}", other)),
    }
}

// C12: add() that already holds its slot permit pushes into a pool closed meanwhile; nobody clears it
fn um_add_close_race() -> Outcome {
    let pool: unmanaged::Pool<u32> = unmanaged::Pool::new(1);
    let p2 = pool.clone();
    verif::set_hook(Some(Box::new(move |name| {
        if name == "um.add.after_permit" {
            p2.close();
        }
    })));
    let r = pool.try_add(7);
    verif::set_hook(None);
    let s = pool.verif_snapshot();
    if s.closed && s.queue_len > 0 {
        Err(format!("closed pool holds {} object(s) after try_add() raced with close() (try_add returned {:?})", s.queue_len, r.map_err(|e| e.1)))
    } else {
        Ok(())
    }
}

// C09 / D3: resize() drops idle objects without Manager::detach
fn mg_resize_no_detach() -> Outcome {
    let (pool, t) = mpool(3);
    rt().block_on(async {
        let a = pool.get().await.unwrap();
        let b = pool.get().await.unwrap();
        let c = pool.get().await.unwrap();
        drop((a, b, c));
    });
    pool.resize(1);
    let dropped = t.dropped.load(Ordering::SeqCst);
    let detached = t.detached.load(Ordering::SeqCst);
    if dropped != detached {
        Err(format!("resize(1) released {} idle objects, Manager::detach was called {} times", dropped, detached))
    } else {
        Ok(())
    }
}
fn mg_close_no_detach() -> Outcome {
    let (pool, t) = mpool(2);
    rt().block_on(async {
        let a = pool.get().await.unwrap();
        let b = pool.get().await.unwrap();
        drop((a, b));
    });
    pool.close();
    let dropped = t.dropped.load(Ordering::SeqCst);
    let detached = t.detached.load(Ordering::SeqCst);
    if dropped != detached {
        Err(format!("close() released {} idle objects, Manager::detach was called {} times", dropped, detached))
    } else {
        Ok(())
    }
}

// C10 / D4: per-call recycle timeout without a runtime silently destroys the idle object
fn mg_recycle_timeout_no_runtime() -> Outcome {
    let (pool, t) = mpool(1);
    rt().block_on(async {
        drop(pool.get().await.unwrap());
        let to = Timeouts { wait: None, create: None, recycle: Some(Duration::from_secs(1)) };
        let r = pool.timeout_get(&to).await;
        match r {
            Err(managed::PoolError::NoRuntimeSpecified) => {
                if t.dropped.load(Ordering::SeqCst) == 0 { Ok(()) } else { Err("NoRuntimeSpecified reported but the idle object was destroyed".into()) }
            }
            Ok(_) => Err(format!(
                "timeout_get(recycle: 1s) without runtime returned Ok; idle object silently destroyed (created {}, dropped {}, recycle calls {})",
                t.created.load(Ordering::SeqCst), t.dropped.load(Ordering::SeqCst), t.recycled.load(Ordering::SeqCst))),
            Err(e) => Err(format!("unexpected error {:?}", e)),
        }
    })
}

// C07 / D1: free permits survive a shrink while size <= max_size
fn mg_shrink_keeps_free_permits() -> Outcome {
    let (pool, t) = mpool(1);
    pool.resize(0);
    rt().block_on(async {
        match pool.timeout_get(&nowait()).await {
            Ok(_o) => Err(format!("after resize(0) a non-blocking get() was admitted: {} live object(s), max_size {}", live(&t), pool.status().max_size)),
            Err(_) => Ok(()),
        }
    })
}
// C07 / D2: grow after a shrink re-adds capacity that is still outstanding
fn mg_shrink_grow_overadmits() -> Outcome {
    let (pool, t) = mpool(2);
    rt().block_on(async {
        let a = pool.get().await.unwrap();
        let b = pool.get().await.unwrap();
        pool.resize(0);
        pool.resize(1);
        let r = pool.timeout_get(&nowait()).await;
        let n = live(&t);
        let out = if r.is_ok() { Err(format!("2 out; resize(0); resize(1): a third object was admitted — {} live objects, max_size {}", n, pool.status().max_size)) } else { Ok(()) };
        drop((a, b, r));
        out
    })
}

// C06: resize() racing with close() re-opens the limits of a closed pool
fn mg_resize_close_race() -> Outcome {
    let (pool, t) = mpool(1);
    let o = rt().block_on(async { pool.get().await.unwrap() });
    let p2 = pool.clone();
    verif::set_hook(Some(Box::new(move |name| {
        if name == "mg.resize.after_closed_check" {
            p2.close();
        }
    })));
    pool.resize(5);
    verif::set_hook(None);
    drop(o); // returned after close() has returned
    let s = pool.verif_snapshot();
    if s.closed && (s.max_size != 0 || s.idle != 0) {
        Err(format!("closed pool reports max_size {} and keeps {} idle object(s) ({} live) after resize(5) raced with close()", s.max_size, s.idle, live(&t)))
    } else {
        Ok(())
    }
}

// C06: close() racing with a resize() that runs between close's resize(0) and Semaphore::close()
fn mg_close_resize_race() -> Outcome {
    let (pool, t) = mpool(1);
    let o = rt().block_on(async { pool.get().await.unwrap() });
    let p2 = pool.clone();
    verif::set_hook(Some(Box::new(move |name| {
        if name == "mg.close.after_resize" {
            p2.resize(3);
        }
    })));
    pool.close();
    verif::set_hook(None);
    drop(o); // returned after close() has returned
    let s = pool.verif_snapshot();
    if s.closed && (s.max_size != 0 || s.idle != 0) {
        Err(format!("closed pool reports max_size {} and keeps {} idle object(s) ({} live) after close() raced with resize(3)", s.max_size, s.idle, live(&t)))
    } else {
        Ok(())
    }
}

// C05 / D7: unmanaged status().waiting does not count blocked getters
fn um_status_waiting() -> Outcome {
    let pool: unmanaged::Pool<u32> = unmanaged::Pool::new(1);
    rt().block_on(async {
        let p2 = pool.clone();
        let h = tokio::spawn(async move { p2.get().await.map(|o| *o) });
        for _ in 0..5 {
            tokio::task::yield_now().await;
        }
        let st = pool.status();
        let out = if st.waiting != 1 { Err(format!("one getter is blocked in get(), status().waiting = {}", st.waiting)) } else { Ok(()) };
        pool.close();
        let _ = h.await;
        out
    })
}

fn scenarios() -> Vec<(&'static str, fn() -> Outcome)> {
    vec![
        ("um_get_close_race", um_get_close_race),
        ("um_add_close_race", um_add_close_race),
        ("mg_resize_no_detach", mg_resize_no_detach),
        ("mg_close_no_detach", mg_close_no_detach),
        ("mg_recycle_timeout_no_runtime", mg_recycle_timeout_no_runtime),
        ("mg_shrink_keeps_free_permits", mg_shrink_keeps_free_permits),
        ("mg_shrink_grow_overadmits", mg_shrink_grow_overadmits),
        ("mg_resize_close_race", mg_resize_close_race),
        ("mg_close_resize_race", mg_close_resize_race),
        ("um_status_waiting", um_status_waiting),
        // differential tests of the trusted primitive models (Err = the model disagrees with the real primitive)
        ("model_semaphore", models::model_semaphore),
        ("model_vecdeque", models::model_vecdeque),
        ("model_duration", models::model_duration),
        ("model_pmutex", models::model_pmutex),
        ("model_atomics", models::model_atomics),
        // random-history witness search (Err = a failing history on the real code)
        ("search_managed", search::search_managed),
        ("search_unmanaged", search::search_unmanaged),
    ]
}

fn main() {
    let arg = std::env::args().nth(1).unwrap_or_default();
    if arg == "--list" {
        for (n, _) in scenarios() {
            println!("{}", n);
        }
        return;
    }
    std::panic::set_hook(Box::new(|_| {}));
    for (n, f) in scenarios() {
        if n == arg {
            match f() {
                Ok(()) => {
                    println!("NOT-REPRODUCED {}", n);
                    std::process::exit(0);
                }
                Err(m) => {
                    println!("REPRODUCED {}: {}", n, m);
                    std::process::exit(1);
                }
            }
        }
    }
    eprintln!("unknown scenario {}", arg);
    std::process::exit(2);
}
