//! Differential tests of the trusted primitive models (assumption A3 of DESIGN.md §9): every `ensures` clause of the
//! models in /verif/models that speaks about a std / tokio primitive is transcribed here (by hand) into an executable
//! reference, and compared with the REAL primitive on every operation sequence up to a small length. A test, not a proof;
//! a mismatch means the trusted base is wrong (`check` treats it as exit 2, never as a property violation).

use std::collections::VecDeque;
use std::sync::{Arc, Mutex};
use std::time::Duration;
use tokio::sync::{Semaphore, TryAcquireError};

pub type Outcome = Result<(), String>;

// ---- tokio::sync::Semaphore against models/prelude.rs::Semaphore ---------------------------------------------------------
#[derive(Clone, Copy, Debug)]
enum SemOp {
    TryAcquireForget,
    TryAcquireDrop,
    TryAcquireMany2Forget,
    TryAcquireMany0,
    AddPermits1,
    AddPermits2,
    Close,
}
const SEM_OPS: [SemOp; 7] = [SemOp::TryAcquireForget, SemOp::TryAcquireDrop, SemOp::TryAcquireMany2Forget, SemOp::TryAcquireMany0, SemOp::AddPermits1, SemOp::AddPermits2, SemOp::Close];

#[derive(Clone, Copy, PartialEq, Debug)]
struct SemModel {
    permits: i64,
    closed: bool,
}

// the model's try_acquire_many(n): Ok iff !closed && permits >= n; Err(Closed) iff closed; state unchanged on Err
fn model_try(m: &mut SemModel, n: i64) -> Result<i64, bool /* closed? */> {
    if m.closed {
        Err(true)
    } else if m.permits >= n {
        m.permits -= n;
        Ok(n)
    } else {
        Err(false)
    }
}

fn sem_run(init: usize, ops: &[SemOp]) -> Outcome {
    let real = Semaphore::new(init);
    let mut m = SemModel { permits: init as i64, closed: false };
    for (i, op) in ops.iter().enumerate() {
        let ctx = format!("init {} ops {:?} step {}", init, ops, i);
        match op {
            SemOp::TryAcquireForget | SemOp::TryAcquireDrop => {
                let r = real.try_acquire();
                let e = model_try(&mut m, 1);
                match (&r, &e) {
                    (Ok(_), Ok(_)) => {}
                    (Err(TryAcquireError::Closed), Err(true)) | (Err(TryAcquireError::NoPermits), Err(false)) => {}
                    _ => return Err(format!("try_acquire: real {:?} vs model {:?} ({})", r.as_ref().map(|_| ()), e, ctx)),
                }
                if let Ok(p) = r {
                    if matches!(op, SemOp::TryAcquireForget) {
                        p.forget(); // model: nothing
                    } else {
                        drop(p); // model release_: permits += n
                        m.permits += 1;
                    }
                }
            }
            SemOp::TryAcquireMany2Forget => {
                let r = real.try_acquire_many(2);
                let e = model_try(&mut m, 2);
                match (&r, &e) {
                    (Ok(_), Ok(_)) => {}
                    (Err(TryAcquireError::Closed), Err(true)) | (Err(TryAcquireError::NoPermits), Err(false)) => {}
                    _ => return Err(format!("try_acquire_many(2): real {:?} vs model {:?} ({})", r.as_ref().map(|_| ()), e, ctx)),
                }
                if let Ok(p) = r {
                    p.forget();
                }
            }
            SemOp::TryAcquireMany0 => {
                let r = real.try_acquire_many(0);
                let e = model_try(&mut m, 0);
                match (&r, &e) {
                    (Ok(_), Ok(_)) => {}
                    (Err(TryAcquireError::Closed), Err(true)) => {}
                    _ => return Err(format!("try_acquire_many(0): real {:?} vs model {:?} ({})", r.as_ref().map(|_| ()), e, ctx)),
                }
            }
            SemOp::AddPermits1 => {
                real.add_permits(1);
                m.permits += 1;
            }
            SemOp::AddPermits2 => {
                real.add_permits(2);
                m.permits += 2;
            }
            SemOp::Close => {
                real.close();
                m.closed = true;
            }
        }
        if real.is_closed() != m.closed {
            return Err(format!("is_closed: real {} vs model {} ({})", real.is_closed(), m.closed, ctx));
        }
        // the model's ghost `permits` is what available_permits() reports while the semaphore is open (a closed tokio
        // semaphore keeps its count; the model keeps it too)
        if real.available_permits() as i64 != m.permits {
            return Err(format!("available_permits: real {} vs model {} ({})", real.available_permits(), m.permits, ctx));
        }
    }
    // acquire(): on a closed semaphore it is ready with an error at the first poll; on an open one with permits it completes
    let rt = tokio::runtime::Builder::new_current_thread().enable_all().build().unwrap();
    let polled = rt.block_on(async { tokio::time::timeout(Duration::from_millis(5), real.acquire()).await.map(|r| r.map(|p| p.forget()).is_ok()) });
    match (polled, m.closed, m.permits > 0) {
        (Ok(false), true, _) => {}
        (Ok(true), false, true) => {}
        (Err(_), false, false) => {} // blocks: no permit and not closed
        other => return Err(format!("acquire(): {:?} (init {} ops {:?})", other, init, ops)),
    }
    Ok(())
}

pub fn model_semaphore() -> Outcome {
    let mut n = 0usize;
    for init in 0..3usize {
        for len in 0..=4usize {
            let mut idx = vec![0usize; len];
            loop {
                let ops: Vec<SemOp> = idx.iter().map(|i| SEM_OPS[*i]).collect();
                sem_run(init, &ops)?;
                n += 1;
                let mut k = 0;
                while k < len {
                    idx[k] += 1;
                    if idx[k] < SEM_OPS.len() {
                        break;
                    }
                    idx[k] = 0;
                    k += 1;
                }
                if k == len {
                    break;
                }
            }
        }
    }
    eprintln!("model_semaphore: {} sequences agree", n);
    Ok(())
}

// ---- VecDeque helpers of models/managed.rs (swap_remove_back / swap_remove_front / remove / pop) -----------------------------
pub fn model_vecdeque() -> Outcome {
    for len in 0..6usize {
        for i in 0..7usize {
            let base: Vec<u32> = (0..len as u32).collect();
            // swap_remove_back: i >= len -> None, unchanged; else Some(v[i]); result = v.update(i, last).drop_last() (drop_last if i is the last)
            let mut d: VecDeque<u32> = base.iter().cloned().collect();
            let r = d.swap_remove_back(i);
            let mut want = base.clone();
            let wr = if i < len {
                let x = want[i];
                let last = *want.last().unwrap();
                want[i] = last;
                want.pop();
                Some(x)
            } else {
                None
            };
            if r != wr || d.iter().cloned().collect::<Vec<_>>() != want {
                return Err(format!("swap_remove_back({}) on {:?}: real ({:?}, {:?}) model ({:?}, {:?})", i, base, r, d, wr, want));
            }
            // swap_remove_front: result = v.update(i, first).drop_first() (drop_first if i == 0)
            let mut d: VecDeque<u32> = base.iter().cloned().collect();
            let r = d.swap_remove_front(i);
            let mut want = base.clone();
            let wr = if i < len {
                let x = want[i];
                let first = want[0];
                want[i] = first;
                want.remove(0);
                Some(x)
            } else {
                None
            };
            if r != wr || d.iter().cloned().collect::<Vec<_>>() != want {
                return Err(format!("swap_remove_front({}) on {:?}: real ({:?}, {:?}) model ({:?}, {:?})", i, base, r, d, wr, want));
            }
            // remove(i): keeps the order of the others
            let mut d: VecDeque<u32> = base.iter().cloned().collect();
            let r = d.remove(i);
            let mut want = base.clone();
            let wr = if i < len { Some(want.remove(i)) } else { None };
            if r != wr || d.iter().cloned().collect::<Vec<_>>() != want {
                return Err(format!("remove({}) on {:?}", i, base));
            }
        }
    }
    Ok(())
}

// ---- Duration accessors of models/prelude.rs ----------------------------------------------------------------------------
pub fn model_duration() -> Outcome {
    for ms in [0u64, 1, 999, 1000, 1001, 59_999, 3_600_000, u64::MAX / 1_000_000] {
        let d = Duration::from_millis(ms);
        let (secs, nanos) = (ms / 1000, ((ms % 1000) * 1_000_000) as u32);
        if d.as_secs() != secs || d.subsec_nanos() != nanos {
            return Err(format!("from_millis({}): real ({}, {}) model ({}, {})", ms, d.as_secs(), d.subsec_nanos(), secs, nanos));
        }
        let total = secs as u128 * 1_000_000_000 + nanos as u128;
        if d.as_nanos() != total || d.as_millis() != total / 1_000_000 || d.subsec_millis() != nanos / 1_000_000 || d.is_zero() != (total == 0) {
            return Err(format!("accessors of from_millis({})", ms));
        }
    }
    for s in [0u64, 1, 86_400] {
        let d = Duration::from_secs(s);
        if d.as_secs() != s || d.subsec_nanos() != 0 {
            return Err(format!("from_secs({})", s));
        }
    }
    Ok(())
}

// ---- std::sync::Mutex poisoning against models/syncw.rs::PMutex ---------------------------------------------------------------
pub fn model_pmutex() -> Outcome {
    let m = Arc::new(Mutex::new(Some(7u32)));
    if m.is_poisoned() {
        return Err("fresh mutex poisoned".into());
    }
    // a guard dropped normally does not poison
    {
        let g = m.lock().unwrap();
        drop(g);
    }
    if m.is_poisoned() {
        return Err("normal unlock poisoned the mutex".into());
    }
    // try_lock is Ok on a free, unpoisoned mutex
    if m.try_lock().is_err() {
        return Err("try_lock failed on a free mutex".into());
    }
    // a guard dropped while a panic unwinds poisons (unlock_unwinding_), the data is kept
    let m2 = m.clone();
    let r = std::thread::spawn(move || {
        let _g = m2.lock().unwrap();
        panic!("boom");
    })
    .join();
    if r.is_ok() || !m.is_poisoned() {
        return Err("panic while holding the guard did not poison".into());
    }
    // lock() on a poisoned mutex is Err but hands the guard out; lock().unwrap() panics; try_lock() is Err
    match m.lock() {
        Ok(_) => return Err("lock() Ok on a poisoned mutex".into()),
        Err(e) => {
            let mut g = e.into_inner();
            if g.take() != Some(7) {
                return Err("data lost by poisoning".into());
            }
        }
    }
    if m.try_lock().is_ok() {
        return Err("try_lock() Ok on a poisoned mutex".into());
    }
    let m3 = m.clone();
    if std::thread::spawn(move || {
        let _g = m3.lock().unwrap();
    })
    .join()
    .is_ok()
    {
        return Err("lock().unwrap() did not panic on a poisoned mutex".into());
    }
    if !m.is_poisoned() {
        return Err("poison flag went away".into());
    }
    Ok(())
}

// ---- atomics (fetch_add / fetch_sub return the previous value; wrapping is what the overflow obligations exclude) ----------
pub fn model_atomics() -> Outcome {
    use std::sync::atomic::{AtomicIsize, AtomicUsize, Ordering};
    let a = AtomicUsize::new(3);
    if a.fetch_add(2, Ordering::Relaxed) != 3 || a.load(Ordering::Relaxed) != 5 || a.fetch_sub(1, Ordering::Relaxed) != 5 || a.load(Ordering::Relaxed) != 4 {
        return Err("AtomicUsize".into());
    }
    if a.swap(9, Ordering::Relaxed) != 4 || a.load(Ordering::Relaxed) != 9 {
        return Err("AtomicUsize::swap".into());
    }
    a.store(1, Ordering::Relaxed);
    if a.load(Ordering::Relaxed) != 1 {
        return Err("AtomicUsize::store".into());
    }
    let b = AtomicIsize::new(-1);
    if b.fetch_add(1, Ordering::Relaxed) != -1 || b.fetch_sub(3, Ordering::Relaxed) != 0 || b.load(Ordering::Relaxed) != -3 {
        return Err("AtomicIsize".into());
    }
    Ok(())
}
