// Hand expansion: HookVec::apply and the call-log contracts used for C04 / C13.  NOT framework code.
use vstd::prelude::*;
verus! {

pub struct Metrics { pub created: u64, pub recycled: Option<u64>, pub recycle_count: usize }
pub struct ObjectInner<T> { pub obj: T, pub metrics: Metrics }

pub enum Kind { PreRecycle, PostRecycle, PostCreate }
pub enum Event { Hook(Kind, int, Metrics, bool), Recycle(Metrics), Create, Detach }

// R3: a boxed hook closure becomes an opaque value; calling it is an external call that logs
pub struct Hook { pub id: usize }
pub struct HookVec { pub vec: Vec<Hook>, pub kind: Ghost<Kind> }
pub struct World { pub log: Ghost<Seq<Event>>, pub unwinding: bool }

#[verifier::external_body]
fn call_hook<T, E>(w: &mut World, hv: &HookVec, i: usize, inner: &mut ObjectInner<T>) -> (r: Result<(), E>)
    requires i < hv.vec@.len(), !old(w).unwinding
    ensures final(w).log@ == old(w).log@.push(Event::Hook(hv.kind@, i as int, old(inner).metrics, r.is_ok())),
            final(inner).metrics == old(inner).metrics,        // hooks get &Metrics: cannot change them
{ unimplemented!() }

pub open spec fn hook_events(k: Kind, m: Metrics, n: int, last_ok: bool) -> Seq<Event> { Seq::new(n as nat, |i: int| Event::Hook(k, i, m, if i == n - 1 { last_ok } else { true })) }

// real: HookVec::apply  (for hook in &self.vec { match hook { Fn(f) => f(..)?, AsyncFn(f) => f(..).await? } } Ok(()))
#[verifier::loop_isolation(false)]
fn apply<T, E>(w: &mut World, this: &HookVec, inner: &mut ObjectInner<T>) -> (r: Result<(), E>)
    requires !old(w).unwinding
    ensures
        final(inner).metrics == old(inner).metrics,
        // [C04 apply.in_order_stop_at_first_failure] hooks 0..k were called in registration order, each with the
        // metrics as they were before the call; k = all of them iff Ok (or unwinding)
        exists|k: int, last_ok: bool| 0 <= k <= this.vec@.len() && #[trigger] hook_events(this.kind@, old(inner).metrics, k, last_ok) =~= final(w).log@.subrange(old(w).log@.len() as int, final(w).log@.len() as int)
            && old(w).log@ =~= final(w).log@.subrange(0, old(w).log@.len() as int)
            && (!final(w).unwinding ==> (r.is_ok() ==> k == this.vec@.len() && (k > 0 ==> last_ok)) && (r.is_err() ==> k > 0 && !last_ok)),
{
    let mut i: usize = 0;
    while i < this.vec.len()
        invariant
            i <= this.vec@.len(), !w.unwinding,
            inner.metrics == old(inner).metrics,
            w.log@ =~= old(w).log@ + hook_events(this.kind@, old(inner).metrics, i as int, true),
        decreases this.vec@.len() - i
    {
        let r = call_hook::<T, E>(w, this, i, inner);
        proof {
            assert(hook_events(this.kind@, old(inner).metrics, i as int, true).push(Event::Hook(this.kind@, i as int, old(inner).metrics, r.is_ok()))
                   =~= hook_events(this.kind@, old(inner).metrics, i as int + 1, r.is_ok()));
        }
        if w.unwinding {
            proof { assert(hook_events(this.kind@, old(inner).metrics, i as int + 1, r.is_ok()) =~= w.log@.subrange(old(w).log@.len() as int, w.log@.len() as int)); }
            return Ok(());   // arbitrary value, caller checks w.unwinding
        }
        match r {
            Ok(()) => {}
            Err(e) => {
                proof { assert(hook_events(this.kind@, old(inner).metrics, i as int + 1, false) =~= w.log@.subrange(old(w).log@.len() as int, w.log@.len() as int)); }
                return Err(e);
            }
        }
        i += 1;
    }
    proof { assert(hook_events(this.kind@, old(inner).metrics, i as int, true) =~= w.log@.subrange(old(w).log@.len() as int, w.log@.len() as int)); }
    Ok(())
}

} // verus!
fn main() {}
