use vstd::prelude::*;
use std::collections::VecDeque;
verus! {

// ---------- trusted primitive models ----------
pub struct Sem { pub permits: usize, pub closed: bool }
pub struct Permit { pub live: bool }
pub enum TryAcquireError { Closed, NoPermits }

pub struct Slots<T> { pub vec: VecDeque<T>, pub size: usize, pub max_size: usize }
pub struct Metrics { pub recycle_count: usize }
pub struct ObjectInner<T> { pub obj: T, pub metrics: Metrics }

// ghost bookkeeping: counts over ALL threads
pub struct G {
    pub held: int,      // live SemaphorePermits
    pub inhand: int,    // getters' objects in hand (popped / created+counted)
    pub creating: int,  // getters committed to create (not yet counted in size)
    pub out: int,       // live Objects
    pub rlimbo: int,    // return_object between push and add_permits
    pub dlimbo: int,    // detach_object between size-=1 and add_permits
    pub armed: int,     // armed users guards
    pub upre: int,      // return/detach after users-=1 but before lock region
}
// my own share
pub struct Mine { pub held: int, pub inhand: int, pub creating: int, pub armed: int, pub rlimbo: int, pub dlimbo: int, pub upre: int, pub objs: int }

pub struct Pool<T> {
    pub slots: Slots<ObjectInner<T>>,
    pub users: usize,
    pub sem: Sem,
    pub g: Ghost<G>,
}

pub open spec fn mine_ok(m: Mine) -> bool {
    &&& 0 <= m.held <= 1 && 0 <= m.inhand && 0 <= m.creating && m.inhand + m.creating <= m.held
    &&& 0 <= m.armed && 0 <= m.rlimbo && 0 <= m.dlimbo && 0 <= m.upre && 0 <= m.objs && m.upre <= m.objs
}

pub open spec fn inv<T>(p: &Pool<T>, m: Mine) -> bool {
    let g = p.g@;
    let P = p.sem.permits as int; let S = p.slots.size as int; let M = p.slots.max_size as int; let L = p.slots.vec@.len() as int;
    &&& mine_ok(m)
    // others' share is itself well formed
    &&& g.held - m.held >= 0 && g.inhand - m.inhand >= 0 && g.creating - m.creating >= 0 && g.out - m.objs >= 0
    &&& g.rlimbo - m.rlimbo >= 0 && g.dlimbo - m.dlimbo >= 0 && g.armed - m.armed >= 0 && g.upre - m.upre >= 0
    &&& (g.inhand - m.inhand) + (g.creating - m.creating) <= (g.held - m.held)
    // permit conservation
    &&& P + g.held + g.out + g.rlimbo + g.dlimbo == M
    // size accounting
    &&& S == L + g.inhand + g.out
    // idle objects are covered
    &&& L <= P + g.rlimbo + (g.held - g.inhand - g.creating)
    // users accounting
    &&& p.users as int == g.armed + g.out - g.upre
    &&& g.upre - m.upre <= g.out - m.objs
}

// C01 consequence
proof fn lemma_c01<T>(p: &Pool<T>, m: Mine)
    requires inv(p, m)
    ensures p.slots.vec@.len() + p.g@.inhand + p.g@.out + p.g@.creating <= p.slots.max_size,
            p.slots.size <= p.slots.max_size,
            p.g@.out <= p.slots.max_size
{}

impl<T> Pool<T> {
    // environment step: anything that preserves inv and leaves my share alone; max_size fixed (C01 premise)
    #[verifier::external_body]
    fn interfere(&mut self, Ghost(m): Ghost<Mine>)
        requires inv(old(self), m)
        ensures inv(final(self), m), final(self).slots.max_size == old(self).slots.max_size
    { unimplemented!() }
}

impl Sem {
    #[verifier::external_body]
    pub fn add_permits(&mut self, n: usize)
        ensures final(self).permits == old(self).permits + n, final(self).closed == old(self).closed
    { unimplemented!() }
}

// real: PoolInner::return_object
fn return_object<T>(p: &mut Pool<T>, inner: ObjectInner<T>, Ghost(m0): Ghost<Mine>)
    requires inv(old(p), m0), m0.objs >= 1, m0.upre == 0, m0.rlimbo == 0
    ensures inv(final(p), Mine { objs: m0.objs - 1, ..m0 })
{
    let ghost mut m = m0;
    p.interfere(Ghost(m));
    assert(p.users > 0);
    p.users = p.users - 1;                    // users.fetch_sub(1)
    proof { p.g@.upre = p.g@.upre + 1; m.upre = m.upre + 1; }
    p.interfere(Ghost(m));
    let slots = &mut p.slots;                 // lock().unwrap()
    if slots.size <= slots.max_size {
        slots.vec.push_back(inner);
        proof { p.g@.out = p.g@.out - 1; p.g@.upre = p.g@.upre - 1; p.g@.rlimbo = p.g@.rlimbo + 1;
                m.objs = m.objs - 1; m.upre = m.upre - 1; m.rlimbo = m.rlimbo + 1; }
        p.interfere(Ghost(m));
        p.sem.add_permits(1);
        proof { p.g@.rlimbo = p.g@.rlimbo - 1; m.rlimbo = m.rlimbo - 1; }
    } else {
        slots.size -= 1;
        proof { p.g@.out = p.g@.out - 1; p.g@.upre = p.g@.upre - 1; m.objs = m.objs - 1; m.upre = m.upre - 1; }
    }
}


pub enum Ctl<R> { Done(R), Unwind }
pub enum PoolError<E> { TimeoutWait, TimeoutCreate, Backend(E), Closed, NoRuntimeSpecified, PostCreateHook(E) }
pub enum QueueMode { Fifo, Lifo }
pub struct UnreadyObject<T> { pub inner: Option<ObjectInner<T>> }
pub struct DropGuard { pub armed: bool }

impl<T> Pool<T> {
    // an await on an external future (manager / hook / semaphore wait / runtime timeout):
    // the environment runs, and the future may complete (Done) or the caller is cancelled / the callee panics (Unwind)
    #[verifier::external_body]
    async fn await_create<E>(&mut self, Ghost(m): Ghost<Mine>) -> (r: Ctl<Result<T, PoolError<E>>>)
        requires inv(old(self), m)
        ensures inv(final(self), m), final(self).slots.max_size == old(self).slots.max_size
    { unimplemented!() }
    #[verifier::external_body]
    async fn await_hook<E>(&mut self, obj: &mut ObjectInner<T>, Ghost(m): Ghost<Mine>) -> (r: Ctl<Result<(), E>>)
        requires inv(old(self), m)
        ensures inv(final(self), m), final(self).slots.max_size == old(self).slots.max_size,
                final(obj).metrics == old(obj).metrics
    { unimplemented!() }
    #[verifier::external_body]
    async fn await_acquire(&mut self, Ghost(m): Ghost<Mine>) -> (r: Ctl<Result<Permit, ()>>)
        requires inv(old(self), m), m.held == 0
        ensures
            r matches Ctl::Done(Ok(_)) ==> inv(final(self), Mine { held: 1, ..m }),
            !(r matches Ctl::Done(Ok(_))) ==> inv(final(self), m),
            final(self).slots.max_size == old(self).slots.max_size
    { unimplemented!() }
    // Sem::try_acquire as one atomic step incl. ghost held+1
    #[verifier::external_body]
    fn try_acquire(&mut self, Ghost(m): Ghost<Mine>) -> (r: Result<Permit, TryAcquireError>)
        requires inv(old(self), m), m.held == 0
        ensures
            r.is_ok() ==> old(self).sem.permits > 0 && !old(self).sem.closed && final(self).sem.permits == old(self).sem.permits - 1
                && final(self).g@ == (G { held: old(self).g@.held + 1, ..old(self).g@ }),
            r.is_err() ==> final(self).sem == old(self).sem && final(self).g@ == old(self).g@,
            (r matches Err(TryAcquireError::Closed)) <==> old(self).sem.closed,
            final(self).slots == old(self).slots, final(self).users == old(self).users, final(self).sem.closed == old(self).sem.closed,
    { unimplemented!() }
    // drop of a live SemaphorePermit
    #[verifier::external_body]
    fn permit_drop(&mut self, permit: Permit)
        ensures final(self).sem.permits == old(self).sem.permits + 1, final(self).sem.closed == old(self).sem.closed,
                final(self).g@ == (G { held: old(self).g@.held - 1, ..old(self).g@ }),
                final(self).slots == old(self).slots, final(self).users == old(self).users
    { unimplemented!() }
}

// real: impl Drop for UnreadyObject
fn unready_drop<T>(p: &mut Pool<T>, mut this: UnreadyObject<T>, Ghost(m0): Ghost<Mine>) -> (mm: Ghost<Mine>)
    requires inv(old(p), m0), m0.inhand == (if this.inner.is_some() { 1int } else { 0int })
    ensures inv(final(p), mm@), mm@ == (Mine { inhand: 0, ..m0 }), final(p).slots.max_size == old(p).slots.max_size
{
    let ghost mut m = m0;
    if let Some(mut inner) = this.inner.take() {
        p.interfere(Ghost(m));
        assert(p.slots.size > 0);
        p.slots.size -= 1;
        proof { p.g@.inhand = p.g@.inhand - 1; m.inhand = m.inhand - 1; }
        // manager.detach(&mut inner.obj)
    }
    Ghost(m)
}

// real: Pool::try_create
async fn try_create<T, E>(p: &mut Pool<T>, Ghost(m0): Ghost<Mine>) -> (res: (Ctl<Result<Option<ObjectInner<T>>, PoolError<E>>>, Ghost<Mine>))
    requires inv(old(p), m0), m0.held == 1, m0.creating == 1, m0.inhand == 0
    ensures inv(final(p), res.1@), final(p).slots.max_size == old(p).slots.max_size,
        res.0 matches Ctl::Done(Ok(Some(_))) ==> res.1@ == (Mine { creating: 0, inhand: 1, ..m0 }),
        !(res.0 matches Ctl::Done(Ok(Some(_)))) ==> res.1@ == (Mine { creating: 0, inhand: 0, ..m0 }),
        !(res.0 matches Ctl::Done(Ok(None)))
{
    let ghost mut m = m0;
    let obj = match p.await_create::<E>(Ghost(m)).await {
        Ctl::Unwind => { proof { p.g@.creating = p.g@.creating - 1; m.creating = 0; } return (Ctl::Unwind, Ghost(m)); }
        Ctl::Done(Err(e)) => { proof { p.g@.creating = p.g@.creating - 1; m.creating = 0; } return (Ctl::Done(Err(e)), Ghost(m)); }
        Ctl::Done(Ok(v)) => v,
    };
    let mut unready_obj = UnreadyObject { inner: Some(ObjectInner { obj, metrics: Metrics { recycle_count: 0 } }) };
    p.interfere(Ghost(m));
    assert(p.slots.size < usize::MAX);
    p.slots.size += 1;
    proof { p.g@.creating = p.g@.creating - 1; p.g@.inhand = p.g@.inhand + 1; m.creating = 0; m.inhand = 1; }
    let mut tmp = unready_obj.inner.take().unwrap();   // unready_obj.inner() -> &mut
    let hr = p.await_hook::<E>(&mut tmp, Ghost(m)).await;
    unready_obj.inner = Some(tmp);
    match hr {
        Ctl::Unwind => { let mm = unready_drop(p, unready_obj, Ghost(m)); return (Ctl::Unwind, mm); }
        Ctl::Done(Err(e)) => { let mm = unready_drop(p, unready_obj, Ghost(m)); return (Ctl::Done(Err(PoolError::PostCreateHook(e))), mm); }
        Ctl::Done(Ok(())) => {}
    }
    let r = unready_obj.inner.take().unwrap();           // unready_obj.ready()
    (Ctl::Done(Ok(Some(r))), Ghost(m))
}

impl<T> Pool<T> {
    #[verifier::external_body]
    async fn await_recycle<E>(&mut self, obj: &mut ObjectInner<T>, Ghost(m): Ghost<Mine>) -> (r: Ctl<Result<(), E>>)
        requires inv(old(self), m)
        ensures inv(final(self), m), final(self).slots.max_size == old(self).slots.max_size,
                final(obj).metrics == old(obj).metrics
    { unimplemented!() }
}

// real: Pool::try_recycle
async fn try_recycle<T, E>(p: &mut Pool<T>, inner_obj: ObjectInner<T>, Ghost(m0): Ghost<Mine>) -> (res: (Ctl<Result<Option<ObjectInner<T>>, PoolError<E>>>, Ghost<Mine>))
    requires inv(old(p), m0), m0.held == 1, m0.creating == 0, m0.inhand == 1, inner_obj.metrics.recycle_count < usize::MAX
    ensures inv(final(p), res.1@), final(p).slots.max_size == old(p).slots.max_size,
        res.0 matches Ctl::Done(Ok(Some(o))) ==> res.1@ == m0 && o.metrics.recycle_count == inner_obj.metrics.recycle_count + 1,
        !(res.0 matches Ctl::Done(Ok(Some(_)))) ==> res.1@ == (Mine { inhand: 0, ..m0 }),
        !(res.0 matches Ctl::Done(Err(_))),       // recycle failures never surface (C04)
{
    let ghost m = m0;
    let mut unready_obj = UnreadyObject { inner: Some(inner_obj) };
    let mut tmp = unready_obj.inner.take().unwrap();
    let h1 = p.await_hook::<E>(&mut tmp, Ghost(m)).await;      // pre_recycle
    match h1 {
        Ctl::Unwind => { unready_obj.inner = Some(tmp); let mm = unready_drop(p, unready_obj, Ghost(m)); return (Ctl::Unwind, mm); }
        Ctl::Done(Err(_e)) => { unready_obj.inner = Some(tmp); let mm = unready_drop(p, unready_obj, Ghost(m)); return (Ctl::Done(Ok(None)), mm); }
        Ctl::Done(Ok(())) => {}
    }
    let rr = p.await_recycle::<E>(&mut tmp, Ghost(m)).await;
    match rr {
        Ctl::Unwind => { unready_obj.inner = Some(tmp); let mm = unready_drop(p, unready_obj, Ghost(m)); return (Ctl::Unwind, mm); }
        Ctl::Done(Err(_e)) => { unready_obj.inner = Some(tmp); let mm = unready_drop(p, unready_obj, Ghost(m)); return (Ctl::Done(Ok(None)), mm); }
        Ctl::Done(Ok(())) => {}
    }
    let h2 = p.await_hook::<E>(&mut tmp, Ghost(m)).await;      // post_recycle
    match h2 {
        Ctl::Unwind => { unready_obj.inner = Some(tmp); let mm = unready_drop(p, unready_obj, Ghost(m)); return (Ctl::Unwind, mm); }
        Ctl::Done(Err(_e)) => { unready_obj.inner = Some(tmp); let mm = unready_drop(p, unready_obj, Ghost(m)); return (Ctl::Done(Ok(None)), mm); }
        Ctl::Done(Ok(())) => {}
    }
    tmp.metrics.recycle_count += 1;
    (Ctl::Done(Ok(Some(tmp))), Ghost(m))
}

// DropGuard closure body: users.fetch_sub(1)
fn users_guard_fire<T>(p: &mut Pool<T>, Ghost(m0): Ghost<Mine>) -> (mm: Ghost<Mine>)
    requires inv(old(p), m0), m0.armed >= 1
    ensures inv(final(p), mm@), mm@ == (Mine { armed: m0.armed - 1, ..m0 }), final(p).slots.max_size == old(p).slots.max_size
{
    let ghost mut m = m0;
    p.interfere(Ghost(m));
    assert(p.users > 0);          // no-wrap obligation of fetch_sub
    p.users = p.users - 1;
    proof { p.g@.armed = p.g@.armed - 1; m.armed = m.armed - 1; }
    Ghost(m)
}

fn permit_release<T>(p: &mut Pool<T>, permit: Permit, Ghost(m0): Ghost<Mine>) -> (mm: Ghost<Mine>)
    requires inv(old(p), m0), m0.held == 1, m0.inhand == 0, m0.creating == 0
    ensures inv(final(p), mm@), mm@ == (Mine { held: 0, ..m0 }), final(p).slots.max_size == old(p).slots.max_size
{
    let ghost mut m = m0;
    p.interfere(Ghost(m));
    assume(p.sem.permits < usize::MAX);
    p.permit_drop(permit);
    proof { m.held = 0; }
    Ghost(m)
}

// real: Pool::timeout_get (wrapper conversion `.into()` dropped)
#[verifier::exec_allows_no_decreases_clause]
#[verifier::loop_isolation(false)]
#[verifier::allow_complex_invariants]
async fn timeout_get<T, E>(p: &mut Pool<T>, non_blocking: bool, mode: QueueMode, Ghost(m0): Ghost<Mine>) -> (res: (Ctl<Result<ObjectInner<T>, PoolError<E>>>, Ghost<Mine>))
    requires inv(old(p), m0), m0.held == 0, m0.inhand == 0, m0.creating == 0, m0.upre == 0
    ensures inv(final(p), res.1@), final(p).slots.max_size == old(p).slots.max_size,
        res.0 matches Ctl::Done(Ok(_)) ==> res.1@ == (Mine { objs: m0.objs + 1, ..m0 }),
        !(res.0 matches Ctl::Done(Ok(_))) ==> res.1@ == m0,
{
    let ghost mut m = m0;
    p.interfere(Ghost(m));
    assume(p.users < usize::MAX);                    // A8: increments do not reach 2^64
    p.users = p.users + 1;
    proof { p.g@.armed = p.g@.armed + 1; m.armed = m.armed + 1; }
    let users_guard = DropGuard { armed: true };

    let permit = if non_blocking {
        p.interfere(Ghost(m));
        match p.try_acquire(Ghost(m)) {
            Ok(pm) => { proof { m.held = 1; } pm }
            Err(e) => {
                let mm = users_guard_fire(p, Ghost(m));
                return (Ctl::Done(Err(match e { TryAcquireError::Closed => PoolError::Closed, TryAcquireError::NoPermits => PoolError::TimeoutWait })), mm);
            }
        }
    } else {
        match p.await_acquire(Ghost(m)).await {
            Ctl::Done(Ok(pm)) => { proof { m.held = 1; } pm }
            Ctl::Done(Err(())) => { let mm = users_guard_fire(p, Ghost(m)); return (Ctl::Done(Err(PoolError::Closed)), mm); }
            Ctl::Unwind => { let mm = users_guard_fire(p, Ghost(m)); return (Ctl::Unwind, mm); }
        }
    };

    let mut result: Option<ObjectInner<T>> = None;
    loop
        invariant inv(p, m), m == (Mine { held: 1, armed: m0.armed + 1, ..m0 }), p.slots.max_size == old(p).slots.max_size, result.is_none()
        ensures inv(p, m), m == (Mine { held: 1, inhand: 1, armed: m0.armed + 1, ..m0 }), p.slots.max_size == old(p).slots.max_size, result.is_some()
    {
        p.interfere(Ghost(m));
        assert(mine_ok(m));
        assert(m.held == 1 && m.inhand == 0 && m.creating == 0);
        let ghost len0 = p.slots.vec@.len();
        let inner_obj = match mode {
            QueueMode::Fifo => p.slots.vec.pop_front(),
            QueueMode::Lifo => p.slots.vec.pop_back(),
        };
        proof {
            if inner_obj.is_some() { p.g@.inhand = p.g@.inhand + 1; m.inhand = 1; }
            else { p.g@.creating = p.g@.creating + 1; m.creating = 1; }
        }
        assert(inner_obj.is_some() ==> p.slots.vec@.len() == len0 - 1);
        assert(inner_obj.is_none() ==> len0 == 0 && p.slots.vec@.len() == 0);
        assert(m.held == 1);
        assert(m.inhand + m.creating == 1);
        assert(mine_ok(m));
        assert(p.slots.size as int == p.slots.vec@.len() + p.g@.inhand + p.g@.out);
        assert(p.slots.vec@.len() as int <= p.sem.permits + p.g@.rlimbo + (p.g@.held - p.g@.inhand - p.g@.creating));
        assert((p.g@.inhand - m.inhand) + (p.g@.creating - m.creating) <= (p.g@.held - m.held));
        assert(inv(p, m));
        let (r, mm) = if let Some(inner_obj) = inner_obj {
            assume(inner_obj.metrics.recycle_count < usize::MAX);   // A8
            try_recycle::<T, E>(p, inner_obj, Ghost(m)).await
        } else {
            try_create::<T, E>(p, Ghost(m)).await
        };
        proof { m = mm@; }
        match r {
            Ctl::Unwind => {
                let m1 = permit_release(p, permit, Ghost(m));
                let m2 = users_guard_fire(p, m1);
                return (Ctl::Unwind, m2);
            }
            Ctl::Done(Err(e)) => {
                let m1 = permit_release(p, permit, Ghost(m));
                let m2 = users_guard_fire(p, m1);
                return (Ctl::Done(Err(e)), m2);
            }
            Ctl::Done(Ok(Some(o))) => { result = Some(o); break; }
            Ctl::Done(Ok(None)) => {}
        }
    }
    // users_guard.disarm(); permit.forget();
    proof {
        p.g@.armed = p.g@.armed - 1; p.g@.held = p.g@.held - 1; p.g@.inhand = p.g@.inhand - 1; p.g@.out = p.g@.out + 1;
        m.armed = m.armed - 1; m.held = 0; m.inhand = 0; m.objs = m.objs + 1;
    }
    (Ctl::Done(Ok(result.unwrap())), Ghost(m))
}
} // verus!
fn main() {}
