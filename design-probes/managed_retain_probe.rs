// Hand expansion: Pool::retain functional contract with a ghost log of predicate results. NOT framework code.
use vstd::prelude::*;
use std::collections::VecDeque;
verus! {

#[derive(Clone, Copy)] pub struct Metrics { pub recycle_count: usize }
pub struct ObjectInner<T> { pub obj: T, pub metrics: Metrics }
pub struct Slots<T> { pub vec: VecDeque<T>, pub size: usize, pub max_size: usize }
pub struct RetainResult<T> { pub retained: usize, pub removed: Vec<T> }
pub struct World { pub verdicts: Ghost<Seq<bool>>, pub detached: Ghost<int> }

// R3: the user predicate is an external call whose verdict is logged
#[verifier::external_body]
fn call_pred<T, F: FnMut(&T, Metrics) -> bool>(w: &mut World, predicate: &mut F, obj: &T, m: Metrics) -> (r: bool)
    ensures final(w).verdicts@ == old(w).verdicts@.push(r), final(w).detached == old(w).detached
{ unimplemented!() }
#[verifier::external_body]
fn mgr_detach<T>(w: &mut World, obj: &mut T)
    ensures final(w).detached@ == old(w).detached@ + 1, final(w).verdicts == old(w).verdicts, *final(obj) == *old(obj)
{ unimplemented!() }

// spec: elements of `s` whose verdict is `want`, in order
pub open spec fn pick<A>(s: Seq<A>, v: Seq<bool>, want: bool) -> Seq<A>
    recommends s.len() == v.len()
    decreases s.len()
{
    if s.len() == 0 || v.len() == 0 { Seq::empty() }
    else {
        let rest = pick(s.drop_last(), v.drop_last(), want);
        if v.last() == want { rest.push(s.last()) } else { rest }
    }
}
proof fn pick_push<A>(s: Seq<A>, v: Seq<bool>, x: A, b: bool, want: bool)
    requires s.len() == v.len()
    ensures pick(s.push(x), v.push(b), want) == (if b == want { pick(s, v, want).push(x) } else { pick(s, v, want) })
{
    assert(s.push(x).drop_last() =~= s);
    assert(v.push(b).drop_last() =~= v);
}

pub open spec fn objs<T>(s: Seq<ObjectInner<T>>) -> Seq<T> { Seq::new(s.len(), |i: int| s[i].obj) }

// real: Pool::retain (lock region = whole body)
#[verifier::loop_isolation(false)]
fn retain<T, F: FnMut(&T, Metrics) -> bool>(w: &mut World, slots: &mut Slots<ObjectInner<T>>, mut predicate: F) -> (r: RetainResult<T>)
    requires old(slots).vec@.len() <= old(slots).size, old(w).verdicts@.len() == 0
    ensures
        final(w).verdicts@.len() == old(slots).vec@.len(),                                             // [C09 retain.each_idle_object_visited_once]
        final(slots).vec@ == pick(old(slots).vec@, final(w).verdicts@, true),                          // [C09 retain.keeps_exactly_true_in_order]  (also C08 order)
        r.removed@ == objs(pick(old(slots).vec@, final(w).verdicts@, false)),                          // [C09 retain.removes_exactly_false_in_order]
        r.retained == final(slots).vec@.len(),                                                         // [C09 retain.retained_count]
        final(slots).size == old(slots).size - r.removed@.len(),                                       // [C09 retain.size_adjusted]
        final(slots).max_size == old(slots).max_size,
        final(w).detached@ == old(w).detached@ + r.removed@.len(),                                     // [C09 retain.one_detach_per_removed]
{
    let ghost vec0 = slots.vec@;
    let mut removed: Vec<T> = Vec::with_capacity(slots.size);
    let guard = slots;
    let mut i = 0;
    while i < guard.vec.len()
        invariant
            i <= guard.vec@.len(),
            w.verdicts@.len() + (guard.vec@.len() - i) == vec0.len(),
            // processed prefix of vec0 = kept(i of them) ++ removed ; unprocessed suffix is still in place
            guard.vec@.subrange(0, i as int) =~= pick(vec0.subrange(0, w.verdicts@.len() as int), w.verdicts@, true),
            removed@ =~= objs(pick(vec0.subrange(0, w.verdicts@.len() as int), w.verdicts@, false)),
            guard.vec@.subrange(i as int, guard.vec@.len() as int) =~= vec0.subrange(w.verdicts@.len() as int, vec0.len() as int),
            w.detached@ == old(w).detached@ + removed@.len(),
            guard.size == old(slots).size, guard.max_size == old(slots).max_size,
            removed@.len() + guard.vec@.len() == vec0.len(),
        decreases guard.vec@.len() - i
    {
        let ghost k = w.verdicts@.len() as int;
        let ghost cur = guard.vec@[i as int];
        assert(cur == vec0[k]) by { assert(guard.vec@.subrange(i as int, guard.vec@.len() as int)[0] == vec0.subrange(k, vec0.len() as int)[0]); }
        let ghost v_before = w.verdicts@;
        let obj = &mut guard.vec[i];
        let keep = call_pred(w, &mut predicate, &obj.obj, obj.metrics);
        proof {
            assert(vec0.subrange(0, k + 1) =~= vec0.subrange(0, k).push(vec0[k]));
            pick_push(vec0.subrange(0, k), v_before, vec0[k], keep, true);
            pick_push(vec0.subrange(0, k), v_before, vec0[k], keep, false);
        }
        let ghost vec_before = guard.vec@;
        if keep {
            i += 1;
            proof {
                assert(guard.vec@.subrange(i as int, guard.vec@.len() as int) =~= vec_before.subrange(i as int - 1, vec_before.len() as int).subrange(1, vec_before.len() as int - (i as int - 1)));
                assert(vec0.subrange(k + 1, vec0.len() as int) =~= vec0.subrange(k, vec0.len() as int).subrange(1, vec0.len() as int - k));
                assert(guard.vec@.subrange(0, i as int) =~= vec_before.subrange(0, i as int - 1).push(cur));
            }
        } else {
            let mut obj = guard.vec.remove(i).unwrap();
            mgr_detach(w, &mut obj.obj);
            removed.push(obj.obj);
            proof {
                assert(guard.vec@.subrange(i as int, guard.vec@.len() as int) =~= vec_before.subrange(i as int, vec_before.len() as int).subrange(1, vec_before.len() as int - i as int));
                assert(vec0.subrange(k + 1, vec0.len() as int) =~= vec0.subrange(k, vec0.len() as int).subrange(1, vec0.len() as int - k));
                assert(guard.vec@.subrange(0, i as int) =~= vec_before.subrange(0, i as int));
            }
        }
    }
    proof {
        assert(vec0.subrange(0, vec0.len() as int) =~= vec0);
        assert(guard.vec@.subrange(0, guard.vec@.len() as int) =~= guard.vec@);
    }
    guard.size -= removed.len();
    RetainResult { retained: i, removed }
}

} // verus!
fn main() {}
