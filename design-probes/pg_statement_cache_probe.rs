// Hand expansion: postgres StatementCache over a trusted keyed-map model. NOT framework code.
use vstd::prelude::*;
verus! {

#[derive(Clone, Copy, PartialEq, Eq)] pub struct Type { pub oid: u32 }
#[derive(Clone, Copy, PartialEq, Eq)] pub struct Statement { pub id: u64 }
pub struct PgError { pub code: u8 }

// Cow erased by view: a key is the pair of views
pub enum CowStr<'a> { Borrowed(&'a str), Owned(String) }
pub enum CowTypes<'a> { Borrowed(&'a [Type]), Owned(Vec<Type>) }
pub struct StatementCacheKey<'a> { pub query: CowStr<'a>, pub types: CowTypes<'a> }
pub open spec fn kview(k: &StatementCacheKey) -> (Seq<char>, Seq<Type>) {
    (match k.query { CowStr::Borrowed(s) => s@, CowStr::Owned(s) => s@ }, match k.types { CowTypes::Borrowed(t) => t@, CowTypes::Owned(t) => t@ })
}
#[verifier::external_body] fn str_to_owned(s: &str) -> (r: String) ensures r@ == s@ { unimplemented!() }
#[verifier::external_body] fn types_to_owned(t: &[Type]) -> (r: Vec<Type>) ensures r@ == t@ { unimplemented!() }

// trusted model of HashMap<StatementCacheKey<'static>, Statement> (Hash/Eq of the key = equality of views)
#[verifier::external_body] pub struct KMap { _p: u8 }
pub uninterp spec fn mview(m: &KMap) -> Map<(Seq<char>, Seq<Type>), Statement>;
impl KMap {
    #[verifier::external_body] fn get(&self, k: &StatementCacheKey) -> (r: Option<Statement>)
        ensures r == (if mview(self).dom().contains(kview(k)) { Some(mview(self)[kview(k)]) } else { None }) { unimplemented!() }
    #[verifier::external_body] fn insert(&mut self, k: StatementCacheKey, v: Statement) -> (r: Option<Statement>)
        ensures mview(final(self)) == mview(old(self)).insert(kview(&k), v), r.is_some() == mview(old(self)).dom().contains(kview(&k)) { unimplemented!() }
    #[verifier::external_body] fn remove(&mut self, k: &StatementCacheKey) -> (r: Option<Statement>)
        ensures mview(final(self)) == mview(old(self)).remove(kview(k)), r.is_some() == mview(old(self)).dom().contains(kview(k)) { unimplemented!() }
    #[verifier::external_body] fn clear(&mut self) ensures mview(final(self)) == Map::<(Seq<char>, Seq<Type>), Statement>::empty() { unimplemented!() }
}

pub struct StatementCache { pub map: KMap, pub size: usize }
pub open spec fn wf(c: &StatementCache) -> bool { mview(&c.map).dom().finite() && c.size == mview(&c.map).dom().len() }   // [C16 size_is_key_count]

pub struct Client { pub prepares: Ghost<Seq<(Seq<char>, Seq<Type>)>> }
#[verifier::external_body]
async fn client_prepare_typed(client: &mut Client, query: &str, types: &[Type]) -> (r: Result<Statement, PgError>)
    ensures final(client).prepares@ == old(client).prepares@.push((query@, types@)) { unimplemented!() }

impl StatementCache {
    fn get(&self, query: &str, types: &[Type]) -> (r: Option<Statement>)
        ensures r == (if mview(&self.map).dom().contains((query@, types@)) { Some(mview(&self.map)[(query@, types@)]) } else { None })   // [C16 get.exact_key]
    {
        let key = StatementCacheKey { query: CowStr::Borrowed(query), types: CowTypes::Borrowed(types) };
        self.map.get(&key)
    }
    fn insert(&mut self, query: &str, types: &[Type], stmt: Statement)
        requires wf(old(self)), old(self).size < usize::MAX
        ensures wf(final(self)), mview(&final(self).map) == mview(&old(self).map).insert((query@, types@), stmt)                       // [C16 insert.exact_key]
    {
        let key = StatementCacheKey { query: CowStr::Owned(str_to_owned(query)), types: CowTypes::Owned(types_to_owned(types)) };
        let map = &mut self.map;
        if map.insert(key, stmt).is_none() {
            self.size = self.size + 1;
        }
    }
    fn remove(&mut self, query: &str, types: &[Type]) -> (r: Option<Statement>)
        requires wf(old(self))
        ensures wf(final(self)), mview(&final(self).map) == mview(&old(self).map).remove((query@, types@))
    {
        let key = StatementCacheKey { query: CowStr::Owned(str_to_owned(query)), types: CowTypes::Owned(types_to_owned(types)) };
        let map = &mut self.map;
        let removed = map.remove(&key);
        if removed.is_some() {
            self.size = self.size - 1;
        }
        removed
    }
    async fn prepare_typed(&mut self, client: &mut Client, query: &str, types: &[Type]) -> (r: Result<Statement, PgError>)
        requires wf(old(self)), old(self).size < usize::MAX
        ensures wf(final(self)),
            // hit: no round trip, stored statement returned, cache unchanged                                                        [C16 prepare.hit_no_roundtrip]
            mview(&old(self).map).dom().contains((query@, types@)) ==> final(client).prepares@ == old(client).prepares@
                && r == Ok::<Statement, PgError>(mview(&old(self).map)[(query@, types@)]) && mview(&final(self).map) == mview(&old(self).map),
            // miss: exactly one prepare with the same key; on success stored under that key                                         [C16 prepare.miss_one_prepare_same_key]
            !mview(&old(self).map).dom().contains((query@, types@)) ==> final(client).prepares@ == old(client).prepares@.push((query@, types@))
                && (r matches Ok(s) ==> mview(&final(self).map) == mview(&old(self).map).insert((query@, types@), s)),
    {
        match self.get(query, types) {
            Some(statement) => Ok(statement),
            None => {
                let stmt = match client_prepare_typed(client, query, types).await { Ok(s) => s, Err(e) => return Err(e) };
                self.insert(query, types, stmt);
                Ok(stmt)
            }
        }
    }
}

} // verus!
fn main() {}
