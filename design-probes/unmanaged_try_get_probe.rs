use vstd::prelude::*;
verus! {

pub struct Sem { pub permits: usize, pub closed: bool }
pub struct Permit { pub live: bool }
pub enum TryAcquireError { Closed, NoPermits }
pub enum PoolError { Timeout, Closed, NoRuntimeSpecified }

pub struct G { pub hq: int, pub pushlimbo: int, pub out: int, pub addlimbo: int, pub szlimbo: int }
pub struct Mine { pub hq: int, pub pushlimbo: int, pub out: int, pub addlimbo: int, pub szlimbo: int }

pub struct Pool<T> {
    pub max_size: usize,
    pub queue: Vec<T>,
    pub size: usize,
    pub size_sem: Sem,
    pub available: isize,
    pub sem: Sem,
    pub g: Ghost<G>,
}
pub struct Object<T> { pub obj: Option<T> }

pub open spec fn mine_ok(m: Mine) -> bool { 0 <= m.hq <= 1 && 0 <= m.pushlimbo && 0 <= m.out && 0 <= m.addlimbo && 0 <= m.szlimbo }

pub open spec fn inv<T>(p: &Pool<T>, m: Mine) -> bool {
    let g = p.g@;
    &&& mine_ok(m)
    &&& g.hq >= m.hq && g.pushlimbo >= m.pushlimbo && g.out >= m.out && g.addlimbo >= m.addlimbo && g.szlimbo >= m.szlimbo
    // every permit (free or held-before-pop) is backed by a queued object, unless the pool was closed
    &&& !p.sem.closed ==> p.queue@.len() == p.sem.permits + g.hq + g.pushlimbo
    &&& p.sem.closed == p.size_sem.closed || true
}

impl<T> Pool<T> {
    #[verifier::external_body]
    fn interfere(&mut self, Ghost(m): Ghost<Mine>)
        requires inv(old(self), m)
        ensures inv(final(self), m), final(self).max_size == old(self).max_size,
                old(self).sem.closed ==> final(self).sem.closed
    { unimplemented!() }

    #[verifier::external_body]
    fn sem_try_acquire(&mut self) -> (r: Result<Permit, TryAcquireError>)
        ensures
            r.is_ok() ==> old(self).sem.permits > 0 && !old(self).sem.closed && final(self).sem.permits == old(self).sem.permits - 1
                && final(self).g@ == (G { hq: old(self).g@.hq + 1, ..old(self).g@ }),
            r.is_err() ==> final(self).sem == old(self).sem && final(self).g@ == old(self).g@,
            (r matches Err(TryAcquireError::Closed)) <==> old(self).sem.closed,
            final(self).queue == old(self).queue, final(self).sem.closed == old(self).sem.closed,
            final(self).size == old(self).size, final(self).available == old(self).available, final(self).size_sem == old(self).size_sem,
            final(self).max_size == old(self).max_size,
    { unimplemented!() }
}

// real: unmanaged::Pool::try_get
fn try_get<T>(p: &mut Pool<T>, Ghost(m0): Ghost<Mine>) -> (r: Result<Object<T>, PoolError>)
    requires inv(old(p), m0), m0.hq == 0
    ensures r.is_ok() ==> inv(final(p), Mine { out: m0.out + 1, ..m0 }),
            r.is_err() ==> inv(final(p), m0),
{
    let ghost mut m = m0;
    p.interfere(Ghost(m));
    let permit = match p.sem_try_acquire() {
        Ok(pm) => { proof { m.hq = 1; } pm }
        Err(e) => { return Err(match e { TryAcquireError::NoPermits => PoolError::Timeout, TryAcquireError::Closed => PoolError::Closed }); }
    };
    p.interfere(Ghost(m));
    let obj = {
        let queue = &mut p.queue;
        queue.pop().unwrap()          // [C12 try_get.pop_unwrap_safe]
    };
    // permit.forget()
    proof { p.g@.hq = p.g@.hq - 1; p.g@.out = p.g@.out + 1; m.hq = 0; m.out = m.out + 1; }
    p.interfere(Ghost(m));
    assume(p.available > isize::MIN);
    p.available = p.available - 1;
    Ok(Object { obj: Some(obj) })
}

} // verus!
fn main() {}
