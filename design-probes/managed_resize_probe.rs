// Hand expansion (iso variant: no interference) of Pool::resize / close / PoolInner::detach_object / status
// against the debt-generalised invariant of DESIGN.md §5 C07.  NOT framework code.
use vstd::prelude::*;
use std::collections::VecDeque;
verus! {

pub struct Sem { pub permits: usize, pub closed: bool }
pub struct Permit { pub live: bool }
pub enum TryAcquireError { Closed, NoPermits }
pub struct Metrics { pub recycle_count: usize }
pub struct ObjectInner<T> { pub obj: T, pub metrics: Metrics }
pub struct Slots<T> { pub vec: VecDeque<T>, pub size: usize, pub max_size: usize }
pub struct Status { pub max_size: usize, pub size: usize, pub available: usize, pub waiting: usize }

pub struct G {
    pub held: int, pub inhand: int, pub creating: int, pub out: int, pub rlimbo: int, pub dlimbo: int,
    pub armed: int, pub upre: int,
    pub released: int,   // objects the pool let go of (dropped / handed to caller by take/retain)
    pub detached: int,   // Manager::detach calls
}

pub struct Pool<T> { pub slots: Slots<ObjectInner<T>>, pub users: usize, pub sem: Sem, pub g: Ghost<G> }

pub open spec fn outstanding(g: G) -> int { g.held + g.out + g.rlimbo + g.dlimbo }
pub open spec fn debt<T>(p: &Pool<T>) -> int { p.sem.permits + outstanding(p.g@) - p.slots.max_size }

pub open spec fn core_inv<T>(p: &Pool<T>) -> bool {
    let g = p.g@; let L = p.slots.vec@.len() as int;
    &&& g.held >= 0 && g.inhand >= 0 && g.creating >= 0 && g.out >= 0 && g.rlimbo >= 0 && g.dlimbo >= 0 && g.armed >= 0 && g.upre >= 0
    &&& g.inhand + g.creating <= g.held && g.upre <= g.out
    &&& debt(p) >= 0                                                   // no capacity is ever destroyed
    &&& p.slots.size as int == L + g.inhand + g.out                    // size accounting
    &&& L <= p.sem.permits + g.rlimbo + (g.held - g.inhand - g.creating)
    &&& p.users as int == g.armed + g.out - g.upre
}
// C07 admission rule
pub open spec fn detach_inv<T>(p: &Pool<T>) -> bool { p.g@.released == p.g@.detached }   // detach exactly once (C09)
pub open spec fn surplus_inv<T>(p: &Pool<T>) -> bool { p.slots.size as int <= (if p.slots.max_size as int >= p.g@.inhand + p.g@.out { p.slots.max_size as int } else { p.g@.inhand + p.g@.out }) }
pub open spec fn admission<T>(p: &Pool<T>) -> bool { debt(p) > 0 ==> p.sem.permits == 0 }
pub open spec fn closed_inv<T>(p: &Pool<T>) -> bool { p.sem.closed ==> p.slots.max_size == 0 && p.slots.vec@.len() == 0 }

impl<T> Pool<T> {
    #[verifier::external_body]
    fn mgr_detach(&mut self, obj: &mut T)
        ensures final(self).g@ == (G { detached: old(self).g@.detached + 1, ..old(self).g@ }),
                final(self).slots == old(self).slots, final(self).users == old(self).users, final(self).sem == old(self).sem
    { unimplemented!() }

    fn sem_try_acquire(&mut self) -> (r: Result<Permit, TryAcquireError>)
        ensures
            r.is_ok() <==> (!old(self).sem.closed && old(self).sem.permits > 0),
            r.is_ok() ==> final(self).sem.permits == old(self).sem.permits - 1 && final(self).sem.closed == old(self).sem.closed
                && final(self).g@ == (G { held: old(self).g@.held + 1, ..old(self).g@ }),
            r.is_err() ==> final(self).sem == old(self).sem && final(self).g@ == old(self).g@,
            final(self).slots == old(self).slots, final(self).users == old(self).users,
    {
        if self.sem.closed { Err(TryAcquireError::Closed) } else if self.sem.permits == 0 { Err(TryAcquireError::NoPermits) }
        else { self.sem.permits = self.sem.permits - 1; proof { self.g@.held = self.g@.held + 1; } Ok(Permit { live: true }) }
    }
    // SemaphorePermit::forget: the permit ceases to exist; capacity shrinks by one
    fn permit_forget_shrink(&mut self, permit: Permit)
        ensures final(self).g@ == (G { held: old(self).g@.held - 1, ..old(self).g@ }),
                final(self).slots == old(self).slots, final(self).users == old(self).users, final(self).sem == old(self).sem
    { proof { self.g@.held = self.g@.held - 1; } }
    fn sem_add_permits(&mut self, n: usize)
        requires old(self).sem.permits + n <= usize::MAX
        ensures final(self).sem.permits == old(self).sem.permits + n, final(self).sem.closed == old(self).sem.closed,
                final(self).g == old(self).g, final(self).slots == old(self).slots, final(self).users == old(self).users
    { self.sem.permits = self.sem.permits + n; }
}

// real: Pool::resize  (iso)
#[verifier::exec_allows_no_decreases_clause]
#[verifier::loop_isolation(false)]
#[verifier::allow_complex_invariants]
fn resize<T>(p: &mut Pool<T>, max_size: usize)
    requires core_inv(old(p)), closed_inv(old(p)), detach_inv(old(p)), surplus_inv(old(p)), old(p).sem.permits + max_size <= usize::MAX,
             // at rest: nobody is inside get()/return (iso premise used by the idle-surplus clause)
             old(p).g@.held == 0 && old(p).g@.rlimbo == 0 && old(p).g@.dlimbo == 0,
    ensures
        core_inv(final(p)),                                                                // [C02/C07 resize.core_inv]
        detach_inv(final(p)),                                                              // [C09 resize.released_are_detached]
        closed_inv(final(p)),                                                              // [C06 resize.closed_inv]
        old(p).sem.closed ==> *final(p) == *old(p),                                        // [C06 resize.closed_pool_untouched]
        !old(p).sem.closed ==> final(p).slots.max_size == max_size,                        // [C07 resize.max_size_set]
        surplus_inv(final(p)),  // [C07 resize.idle_surplus_released]
        !old(p).sem.closed ==> final(p).sem.permits as int == (if max_size as int >= outstanding(final(p).g@) { max_size as int - outstanding(final(p).g@) } else { 0 }), // [C07 resize.free_permits_match_limit]
        outstanding(final(p).g@) == outstanding(old(p).g@),                                // [C07 resize.outstanding_untouched]
{
    if p.sem.closed {
        return;
    }
    let slots = &mut p.slots;
    let old_max_size = slots.max_size;
    slots.max_size = max_size;
    // shrink pool
    if max_size < old_max_size {
        while p.slots.size > p.slots.max_size
            invariant
                core_inv(p),
                p.slots.max_size == max_size, !p.sem.closed,
                      p.g@.held == 0 && p.g@.rlimbo == 0 && p.g@.dlimbo == 0,
                      outstanding(p.g@) == outstanding(old(p).g@), p.g@.out == old(p).g@.out, p.g@.inhand == old(p).g@.inhand,
            ensures p.slots.size <= p.slots.max_size || p.sem.permits == 0,
        {
            if let Ok(permit) = p.sem_try_acquire() {
                p.permit_forget_shrink(permit);
                if p.slots.vec.pop_front().is_some() {
                    p.slots.size -= 1;
                    proof { p.g@.released = p.g@.released + 1; }          // object dropped here
                }
            } else {
                break;
            }
        }
        // (rebuild of the VecDeque elided: order/content preserving)
    }
    // grow pool
    if max_size > old_max_size {
        let additional = p.slots.max_size - old_max_size;
        p.sem_add_permits(additional);
    }
}

} // verus!
fn main() {}
