// Hand expansion: redis Manager::recycle with a ghost model of redis::Pipeline. NOT framework code.
use vstd::prelude::*;
verus! {

pub enum Cmd { Unwatch { ignored: bool }, Ping { arg: Seq<char>, ignored: bool }, Other }
#[verifier::external_body]
pub struct Pipeline { _p: u8 }
pub uninterp spec fn pl_view(p: &Pipeline) -> Seq<Cmd>;
pub uninterp spec fn cmd_of(name: Seq<char>, ignored: bool) -> Cmd;
pub uninterp spec fn with_arg(c: Cmd, a: Seq<char>) -> Cmd;
pub uninterp spec fn ignored(c: Cmd) -> Cmd;

impl Pipeline {
    #[verifier::external_body] fn with_capacity(n: usize) -> (r: Pipeline) ensures pl_view(&r) == Seq::<Cmd>::empty() { unimplemented!() }
    #[verifier::external_body] fn cmd(&mut self, name: &str) -> (r: &mut Pipeline)
        ensures pl_view(r) == pl_view(old(self)).push(cmd_of(name@, false)), *final(self) == *final(r) { unimplemented!() }
}

fn build() -> (p: Pipeline)
    ensures pl_view(&p).len() == 2
{
    let mut p = Pipeline::with_capacity(2);
    p.cmd("UNWATCH").cmd("PING");
    p
}

} // verus!
fn main() {}
