use vstd::prelude::*;
use vstd::future::*;
use std::future::Future;
verus! {

#[derive(Clone, Copy)]
pub enum TimeoutType { Wait, Create, Recycle }
pub enum PoolError<E> { Timeout(TimeoutType), Backend(E), Closed, NoRuntimeSpecified }
#[derive(Clone, Copy)]
pub enum Runtime { Tokio1 }
#[derive(Clone, Copy)]
pub struct Duration { pub nanos: u128 }

impl Runtime {
    #[verifier::external_body]
    pub async fn timeout<F: Future>(&self, duration: Duration, future: F) -> (r: Option<F::Output>)
        ensures r matches Some(v) ==> future.awaited() && v == future@
    { unimplemented!() }
}

pub open spec fn lift<O, E>(x: Result<O, PoolError<E>>) -> Result<O, PoolError<E>> { x }

async fn apply_timeout<O, E>(
    runtime: Option<Runtime>,
    timeout_type: TimeoutType,
    duration: Option<Duration>,
    future: impl Future<Output = Result<O, impl Into<PoolError<E>>>>,
) -> (r: Result<O, PoolError<E>>)
    ensures
        runtime.is_none() && duration.is_some() ==> r matches Err(PoolError::NoRuntimeSpecified),
        duration.is_none() ==> future.awaited() && (r.is_ok() <==> future@.is_ok()),
        runtime.is_some() && duration.is_some() ==> (future.awaited() && (r.is_ok() <==> future@.is_ok())) || (r matches Err(PoolError::Timeout(_))),
{
    match (runtime, duration) {
        (_, None) => future.await.map_err(Into::into),
        (Some(runtime), Some(duration)) => runtime
            .timeout(duration, future)
            .await
            .ok_or(PoolError::Timeout(timeout_type))?
            .map_err(Into::into),
        (None, Some(_)) => Err(PoolError::NoRuntimeSpecified),
    }
}

} // verus!
fn main() {}
