// Hand expansion: postgres Config::get_pg_config against a setter/getter model of tokio_postgres::Config. NOT framework code.
use vstd::prelude::*;
verus! {

#[derive(Clone, Copy, PartialEq, Eq)] pub enum SslMode { Disable, Prefer, Require }
#[derive(Clone, Copy, PartialEq, Eq)] pub enum PgSslMode { Disable, Prefer, Require }
#[derive(Clone, Copy, PartialEq, Eq)] pub enum TargetSessionAttrs { Any, ReadWrite }
#[derive(Clone, Copy, PartialEq, Eq)] pub enum PgTargetSessionAttrs { Any, ReadWrite }

pub open spec fn ssl_into(m: SslMode) -> PgSslMode { match m { SslMode::Disable => PgSslMode::Disable, SslMode::Prefer => PgSslMode::Prefer, SslMode::Require => PgSslMode::Require } }
pub open spec fn tsa_into(m: TargetSessionAttrs) -> PgTargetSessionAttrs { match m { TargetSessionAttrs::Any => PgTargetSessionAttrs::Any, TargetSessionAttrs::ReadWrite => PgTargetSessionAttrs::ReadWrite } }
fn ssl_from(mode: SslMode) -> (r: PgSslMode) ensures r == ssl_into(mode)
{ match mode { SslMode::Disable => PgSslMode::Disable, SslMode::Prefer => PgSslMode::Prefer, SslMode::Require => PgSslMode::Require } }

// ---- trusted model of tokio_postgres::Config: abstract state + setter/getter contracts ----
pub enum Host { Tcp(Seq<char>), Unix(Seq<char>) }
pub struct PgState {
    pub user: Option<Seq<char>>, pub password: Option<Seq<char>>, pub dbname: Option<Seq<char>>,
    pub options: Option<Seq<char>>, pub application_name: Option<Seq<char>>,
    pub hosts: Seq<Host>, pub ports: Seq<u16>, pub ssl_mode: PgSslMode, pub target_session_attrs: PgTargetSessionAttrs,
    pub keepalives: bool,
}
#[verifier::external_body]
pub struct PgConfig { _p: u8 }
pub uninterp spec fn pg_view(c: &PgConfig) -> PgState;
pub uninterp spec fn host_of(s: Seq<char>) -> Host;
pub enum PgError { Parse }

#[verifier::external_body] fn pg_new() -> (c: PgConfig) ensures pg_view(&c).hosts.len() == 0, pg_view(&c).ports.len() == 0, pg_view(&c).user.is_none(), pg_view(&c).dbname.is_none() { unimplemented!() }
#[verifier::external_body] fn pg_from_str(url: &str) -> (r: Result<PgConfig, PgError>) { unimplemented!() }
impl PgConfig {
    #[verifier::external_body] fn user(&mut self, v: &str) ensures pg_view(final(self)) == (PgState { user: Some(v@), ..pg_view(old(self)) }) { unimplemented!() }
    #[verifier::external_body] fn password(&mut self, v: &str) ensures pg_view(final(self)) == (PgState { password: Some(v@), ..pg_view(old(self)) }) { unimplemented!() }
    #[verifier::external_body] fn dbname(&mut self, v: &str) ensures pg_view(final(self)) == (PgState { dbname: Some(v@), ..pg_view(old(self)) }) { unimplemented!() }
    #[verifier::external_body] fn host(&mut self, v: &str) ensures pg_view(final(self)) == (PgState { hosts: pg_view(old(self)).hosts.push(host_of(v@)), ..pg_view(old(self)) }) { unimplemented!() }
    #[verifier::external_body] fn host_path(&mut self, v: &str) ensures pg_view(final(self)) == (PgState { hosts: pg_view(old(self)).hosts.push(Host::Unix(v@)), ..pg_view(old(self)) }) { unimplemented!() }
    #[verifier::external_body] fn port(&mut self, v: u16) ensures pg_view(final(self)) == (PgState { ports: pg_view(old(self)).ports.push(v), ..pg_view(old(self)) }) { unimplemented!() }
    #[verifier::external_body] fn keepalives(&mut self, v: bool) ensures pg_view(final(self)) == (PgState { keepalives: v, ..pg_view(old(self)) }) { unimplemented!() }
    #[verifier::external_body] fn ssl_mode(&mut self, v: PgSslMode) ensures pg_view(final(self)) == (PgState { ssl_mode: v, ..pg_view(old(self)) }) { unimplemented!() }
    #[verifier::external_body] fn get_user(&self) -> (r: Option<&str>) ensures r.is_some() == pg_view(self).user.is_some(), r.is_some() ==> r.unwrap()@ == pg_view(self).user.unwrap() { unimplemented!() }
    #[verifier::external_body] fn get_dbname(&self) -> (r: Option<&str>) ensures r.is_some() == pg_view(self).dbname.is_some(), r.is_some() ==> r.unwrap()@ == pg_view(self).dbname.unwrap() { unimplemented!() }
    #[verifier::external_body] fn get_hosts_is_empty(&self) -> (r: bool) ensures r == (pg_view(self).hosts.len() == 0) { unimplemented!() }
}
#[verifier::external_body] fn env_var_user() -> (r: Option<String>) { unimplemented!() }
#[verifier::external_body] fn str_is_empty(s: &str) -> (r: bool) ensures r == (s@.len() == 0) { unimplemented!() }
#[verifier::external_body] fn string_as_str(s: &String) -> (r: &str) ensures r@ == s@ { unimplemented!() }

pub enum ConfigError { InvalidUrl(PgError), DbnameMissing, DbnameEmpty }

pub struct Config {
    pub url: Option<String>, pub user: Option<String>, pub password: Option<String>, pub dbname: Option<String>,
    pub host: Option<String>, pub hosts: Option<Vec<String>>, pub port: Option<u16>, pub ports: Option<Vec<u16>>,
    pub keepalives: Option<bool>, pub ssl_mode: Option<SslMode>, pub target_session_attrs: Option<TargetSessionAttrs>,
}

pub open spec fn set_nonempty(o: Option<String>) -> bool { o.is_some() && o.unwrap()@.len() > 0 }
pub open spec fn strs_to_hosts(v: Seq<String>) -> Seq<Host> { Seq::new(v.len(), |i: int| host_of(v[i]@)) }

impl Config {
    // real: Config::get_pg_config (fields not shown here follow the same pattern)
    #[verifier::loop_isolation(false)]
    pub fn get_pg_config(&self) -> (res: Result<PgConfig, ConfigError>)
        ensures
            res.is_ok() ==> (set_nonempty(self.user) ==> pg_view(&res->Ok_0).user == Some(self.user.unwrap()@)),   // [C18 get_pg_config.user]
            res.is_ok() ==> (self.password.is_some() ==> pg_view(&res->Ok_0).password == Some(self.password.unwrap()@)),   // [C18 get_pg_config.password]
            res.is_ok() ==> (set_nonempty(self.dbname) ==> pg_view(&res->Ok_0).dbname == Some(self.dbname.unwrap()@)),   // [C18 get_pg_config.dbname]
            res.is_ok() ==> (pg_view(&res->Ok_0).dbname.is_some() && pg_view(&res->Ok_0).dbname.unwrap().len() > 0),   // [C18 get_pg_config.dbname_present]
            res.is_ok() ==> (self.url.is_none() && self.port.is_some() && self.ports.is_none() ==> pg_view(&res->Ok_0).ports == seq![self.port.unwrap()]),   // [C18 get_pg_config.port]
            res.is_ok() ==> (self.url.is_none() && self.port.is_some() && self.ports.is_some() ==> pg_view(&res->Ok_0).ports == seq![self.port.unwrap()] + self.ports.unwrap()@),   // [C18 get_pg_config.ports_order]
            res.is_ok() ==> (self.keepalives.is_some() ==> pg_view(&res->Ok_0).keepalives == self.keepalives.unwrap()),   // [C18 get_pg_config.keepalives]
            res.is_ok() ==> (self.ssl_mode.is_some() ==> pg_view(&res->Ok_0).ssl_mode == ssl_into(self.ssl_mode.unwrap())),   // [C18 get_pg_config.ssl_mode]
            res.is_ok() ==> (self.target_session_attrs.is_some() ==> pg_view(&res->Ok_0).target_session_attrs == tsa_into(self.target_session_attrs.unwrap())),   // [C18 get_pg_config.target_session_attrs]
            res.is_ok() ==> (pg_view(&res->Ok_0).hosts.len() > 0),   // [C18 get_pg_config.some_host]
    {
        let mut cfg = if let Some(url) = &self.url {
            match pg_from_str(string_as_str(url)) { Ok(c) => c, Err(e) => return Err(ConfigError::InvalidUrl(e)) }
        } else {
            pg_new()
        };
        if let Some(user) = &self.user {
            if !str_is_empty(string_as_str(user)) {            // .as_ref().filter(|s| !s.is_empty())
                cfg.user(string_as_str(user));
            }
        }
        let has_user = match cfg.get_user() { Some(u) => !str_is_empty(u), None => false };   // is_some_and(..)
        if !has_user {
            if let Some(user) = env_var_user() {
                cfg.user(string_as_str(&user));
            }
        }
        if let Some(password) = &self.password {
            cfg.password(string_as_str(password));
        }
        if let Some(dbname) = &self.dbname {
            if !str_is_empty(string_as_str(dbname)) {
                cfg.dbname(string_as_str(dbname));
            }
        }
        match cfg.get_dbname() {
            None => { return Err(ConfigError::DbnameMissing); }
            Some(d) => { if str_is_empty(d) { return Err(ConfigError::DbnameEmpty); } }
        }
        if let Some(host) = &self.host {
            cfg.host(string_as_str(host));
        }
        if let Some(hosts) = &self.hosts {
            let mut i: usize = 0;
            let ghost before = pg_view(&cfg);
            while i < hosts.len()
                invariant i <= hosts@.len(),
                    pg_view(&cfg) == (PgState { hosts: before.hosts + strs_to_hosts(hosts@.subrange(0, i as int)), ..before }),
                decreases hosts@.len() - i
            {
                cfg.host(string_as_str(&hosts[i]));
                proof { assert(strs_to_hosts(hosts@.subrange(0, i as int)).push(host_of(hosts@[i as int]@)) =~= strs_to_hosts(hosts@.subrange(0, i as int + 1))); }
                i += 1;
            }
        }
        if cfg.get_hosts_is_empty() {
            cfg.host_path("/run/postgresql");
            cfg.host_path("/var/run/postgresql");
            cfg.host_path("/tmp");
        }
        if let Some(port) = self.port {
            cfg.port(port);
        }
        if let Some(ports) = &self.ports {
            let mut i: usize = 0;
            let ghost before = pg_view(&cfg);
            while i < ports.len()
                invariant i <= ports@.len(),
                    pg_view(&cfg) == (PgState { ports: before.ports + ports@.subrange(0, i as int), ..before }),
                decreases ports@.len() - i
            {
                cfg.port(ports[i]);
                proof { assert(ports@.subrange(0, i as int).push(ports@[i as int]) =~= ports@.subrange(0, i as int + 1)); }
                i += 1;
            }
            proof { assert(ports@.subrange(0, ports@.len() as int) =~= ports@); }
        }
        if let Some(keepalives) = self.keepalives {
            cfg.keepalives(keepalives);
        }
        if let Some(mode) = self.ssl_mode {
            cfg.ssl_mode(ssl_from(mode));
        }
        Ok(cfg)
    }
}

} // verus!
fn main() {}
