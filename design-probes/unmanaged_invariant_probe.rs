// Hand expansion (conc variant) of the unmanaged pool against its ghost invariant. NOT framework code.
use vstd::prelude::*;
verus! {

pub struct Sem { pub permits: usize, pub closed: bool }
pub struct Permit { pub live: bool }
pub enum TryAcquireError { Closed, NoPermits }
#[derive(Clone, Copy)] pub enum PoolError { Timeout, Closed, NoRuntimeSpecified }
pub struct Status { pub max_size: usize, pub size: usize, pub available: usize, pub waiting: usize }

// ghost counts over all calls / my own share
pub struct G {
    pub hq: int,        // permit of `semaphore` taken, pop not yet done
    pub push: int,      // object pushed, permit not yet added (Object::drop / _add)
    pub out: int,       // live Objects (pool alive)
    pub addpre: int,    // size_semaphore permit taken+forgotten, size not yet incremented
    pub addmid: int,    // size incremented, object not yet pushed
    pub takemid: int,   // Object::take: size decremented, size_semaphore permit not yet returned
    pub lagp: int,      // pushed, `available` not yet incremented
    pub lagm: int,      // popped, `available` not yet decremented
    pub willclear: int, // calls committed to run clear() before they return (close(); Object::drop -> clean_up)
}
pub struct Pool<T> {
    pub max_size: usize, pub queue: Vec<T>, pub size: usize, pub size_sem: Sem, pub available: isize, pub sem: Sem,
    pub g: Ghost<G>, pub mine: Ghost<G>,
}
pub struct Object<T> { pub obj: Option<T> }

pub open spec fn nonneg(g: G) -> bool { g.hq >= 0 && g.push >= 0 && g.out >= 0 && g.addpre >= 0 && g.addmid >= 0 && g.takemid >= 0 && g.lagp >= 0 && g.lagm >= 0 && g.willclear >= 0 }
pub open spec fn le(a: G, b: G) -> bool { a.hq <= b.hq && a.push <= b.push && a.out <= b.out && a.addpre <= b.addpre && a.addmid <= b.addmid && a.takemid <= b.takemid && a.lagp <= b.lagp && a.lagm <= b.lagm && a.willclear <= b.willclear }

pub open spec fn inv<T>(p: &Pool<T>) -> bool {
    let g = p.g@; let Q = p.queue@.len() as int;
    &&& nonneg(g) && nonneg(p.mine@) && le(p.mine@, g)
    &&& (p.sem.closed <==> p.size_sem.closed)
    // every permit of `semaphore` (free, or held before the pop) is backed by a queued object
    &&& !p.sem.closed ==> Q == p.sem.permits + g.hq + g.push                                   // [C12 permits_backed]
    // slots: max_size = free slots + objects + slots in transit
    &&& !p.sem.closed ==> p.size_sem.permits + p.size + g.addpre + g.takemid == p.max_size     // [C05 slots_conserved]
    &&& p.size as int == Q + g.out + g.addmid                                                   // [C05 size_is_queue_plus_out]
    &&& p.available as int == Q - g.lagp + g.lagm                                               // [C05 available_tracks_queue]
    &&& p.sem.closed && g.willclear == 0 ==> Q == 0                                                                 // [C12 closed_pool_is_empty]
}

impl<T> Pool<T> {
    #[verifier::external_body]
    fn interfere(&mut self)
        requires inv(old(self))
        ensures inv(final(self)), final(self).mine == old(self).mine, final(self).max_size == old(self).max_size,
                old(self).sem.closed ==> final(self).sem.closed
    { unimplemented!() }
}

fn sem_try_acquire(s: &mut Sem) -> (r: Result<Permit, TryAcquireError>)
    ensures r.is_ok() <==> (!old(s).closed && old(s).permits > 0),
            r.is_ok() ==> final(s).permits == old(s).permits - 1 && final(s).closed == old(s).closed,
            r.is_err() ==> *final(s) == *old(s),
            (r matches Err(TryAcquireError::Closed)) <==> old(s).closed,
{ if s.closed { Err(TryAcquireError::Closed) } else if s.permits == 0 { Err(TryAcquireError::NoPermits) } else { s.permits = s.permits - 1; Ok(Permit { live: true }) } }

fn sem_add_permits(s: &mut Sem, n: usize)
    requires old(s).permits + n <= usize::MAX
    ensures final(s).permits == old(s).permits + n, final(s).closed == old(s).closed
{ s.permits = s.permits + n; }

// real: Pool::try_add + Pool::_add
fn try_add<T>(p: &mut Pool<T>, object: T) -> (r: Result<(), (T, PoolError)>)
    requires inv(old(p)), old(p).mine@ == (G { hq: 0, push: 0, addpre: 0, addmid: 0, takemid: 0, lagp: 0, lagm: 0, willclear: 0, ..old(p).mine@ })
    ensures inv(final(p)), final(p).mine@ == old(p).mine@,                                        // [C05 try_add.tokens_settled]
            r matches Err((o, e)) ==> o == object,                                                 // [C05 try_add.gives_object_back]
{
    p.interfere();
    match sem_try_acquire(&mut p.size_sem) {
        Ok(permit) => {
            // permit.forget();
            proof { p.g@.addpre = p.g@.addpre + 1; p.mine@.addpre = p.mine@.addpre + 1; }
            // ---- _add ----
            p.interfere();
            assume(p.size < usize::MAX);
            p.size = p.size + 1;                                   // size.fetch_add(1)
            proof { p.g@.addpre = p.g@.addpre - 1; p.mine@.addpre = p.mine@.addpre - 1; p.g@.addmid = p.g@.addmid + 1; p.mine@.addmid = p.mine@.addmid + 1; }
            p.interfere();
            {
                let queue = &mut p.queue;
                queue.push(object);
            }
            proof { p.g@.addmid = p.g@.addmid - 1; p.mine@.addmid = p.mine@.addmid - 1; p.g@.push = p.g@.push + 1; p.mine@.push = p.mine@.push + 1;
                    p.g@.lagp = p.g@.lagp + 1; p.mine@.lagp = p.mine@.lagp + 1; }
            p.interfere();
            assume(p.available < isize::MAX);
            p.available = p.available + 1;                         // available.fetch_add(1)
            proof { p.g@.lagp = p.g@.lagp - 1; p.mine@.lagp = p.mine@.lagp - 1; }
            p.interfere();
            assume(p.sem.permits < usize::MAX);
            sem_add_permits(&mut p.sem, 1);
            proof { p.g@.push = p.g@.push - 1; p.mine@.push = p.mine@.push - 1; }
            Ok(())
        }
        Err(e) => Err(match e {
            TryAcquireError::NoPermits => (object, PoolError::Timeout),
            TryAcquireError::Closed => (object, PoolError::Closed),
        }),
    }
}


// real: PoolInner::clear  (all under the queue lock)
fn clear<T>(p: &mut Pool<T>)
    requires inv(old(p)), old(p).sem.closed, old(p).mine@.willclear >= 1
    ensures inv(final(p)), final(p).mine@ == (G { willclear: old(p).mine@.willclear - 1, ..old(p).mine@ }), final(p).sem.closed
{
    p.interfere();
    let queue = &mut p.queue;
    let n = queue.len();
    assert(p.size >= n);                        // [C11-like no-wrap: size.fetch_sub(len)]
    p.size = p.size - n;
    assume(n <= isize::MAX as usize);            // Vec length bound
    assume(p.available as int - n as int >= isize::MIN as int);
    p.available = p.available - (n as isize);
    queue.clear();
    proof { p.g@.willclear = p.g@.willclear - 1; p.mine@.willclear = p.mine@.willclear - 1; }
}

// real: Pool::close
fn close<T>(p: &mut Pool<T>)
    requires inv(old(p))
    ensures inv(final(p)), final(p).mine == old(p).mine, final(p).sem.closed, final(p).size_sem.closed
{
    p.interfere();
    proof { p.g@.willclear = p.g@.willclear + 1; p.mine@.willclear = p.mine@.willclear + 1; }
    p.sem.closed = true;             // semaphore.close()
    p.size_sem.closed = true;        // size_semaphore.close()   (model: the two closes + clear as the code orders them)
    clear(p);
}

// real: impl Drop for Object  (pool alive)
fn object_drop<T>(p: &mut Pool<T>, mut this: Object<T>)
    requires inv(old(p)), old(p).mine@.out >= 1, this.obj.is_some(), old(p).mine@.push == 0, old(p).mine@.lagp == 0, old(p).mine@.willclear == 0
    ensures inv(final(p)), final(p).mine@ == (G { out: old(p).mine@.out - 1, ..old(p).mine@ }),
{
    if let Some(obj) = this.obj.take() {
        p.interfere();
        {
            let queue = &mut p.queue;
            queue.push(obj);
        }
        proof { p.g@.out = p.g@.out - 1; p.mine@.out = p.mine@.out - 1; p.g@.push = p.g@.push + 1; p.mine@.push = p.mine@.push + 1;
                p.g@.lagp = p.g@.lagp + 1; p.mine@.lagp = p.mine@.lagp + 1;
                p.g@.willclear = p.g@.willclear + 1; p.mine@.willclear = p.mine@.willclear + 1; }   // clean_up() follows
        p.interfere();
        assume(p.available < isize::MAX);
        p.available = p.available + 1;
        proof { p.g@.lagp = p.g@.lagp - 1; p.mine@.lagp = p.mine@.lagp - 1; }
        p.interfere();
        assume(p.sem.permits < usize::MAX);
        sem_add_permits(&mut p.sem, 1);
        proof { p.g@.push = p.g@.push - 1; p.mine@.push = p.mine@.push - 1; }
        // clean_up()
        p.interfere();
        if p.sem.closed { clear(p); } else { proof { p.g@.willclear = p.g@.willclear - 1; p.mine@.willclear = p.mine@.willclear - 1; } }
    }
}

// real: Object::take (pool alive)
fn object_take<T>(p: &mut Pool<T>, mut this: Object<T>) -> (r: T)
    requires inv(old(p)), old(p).mine@.out >= 1, this.obj.is_some(), old(p).mine@.takemid == 0
    ensures inv(final(p)), final(p).mine@ == (G { out: old(p).mine@.out - 1, ..old(p).mine@ }),
            Some(r) == this.obj,                                                              // [C05 take.returns_wrapped_value]
{
    p.interfere();
    assert(p.size >= 1);                          // no-wrap of size.fetch_sub(1)
    p.size = p.size - 1;
    proof { p.g@.out = p.g@.out - 1; p.mine@.out = p.mine@.out - 1; p.g@.takemid = p.g@.takemid + 1; p.mine@.takemid = p.mine@.takemid + 1; }
    p.interfere();
    assume(p.size_sem.permits < usize::MAX);
    sem_add_permits(&mut p.size_sem, 1);
    proof { p.g@.takemid = p.g@.takemid - 1; p.mine@.takemid = p.mine@.takemid - 1; }
    this.obj.take().unwrap()
}

// real: Pool::status
fn status<T>(p: &Pool<T>) -> (r: Status)
    requires inv(p)
    ensures
        r.max_size == p.max_size, r.size == p.size,
        // at rest (no call in progress): exact figures                                       [C05 status.exact_at_rest]
        (p.g@.hq == 0 && p.g@.push == 0 && p.g@.addpre == 0 && p.g@.addmid == 0 && p.g@.takemid == 0 && p.g@.lagp == 0 && p.g@.lagm == 0 && p.g@.willclear == 0)
            ==> r.size == p.queue@.len() + p.g@.out && r.available == p.queue@.len(),
        !p.sem.closed ==> r.size <= p.max_size,                                               // [C05 status.size_le_max]
{
    let max_size = p.max_size;
    let size = p.size;
    let available = p.available;
    Status {
        max_size,
        size,
        available: if available > 0 { available as usize } else { 0 },
        waiting: if available < 0 { assume(available > isize::MIN); (-available) as usize } else { 0 },
    }
}
} // verus!
fn main() {}
